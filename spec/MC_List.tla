------------------------------ MODULE MC_List ------------------------------
(* C15: histories of array-method calls, index reads and writes on the       *)
(* arrays a, b (, c), including calls nested in the arguments of calls.      *)
(* The arrays are containers 1, 2, 3 of a JqHeap heap; every operation is    *)
(* applied through the name that holds the array.  Every history is emitted  *)
(* with the result, the contents and the lengths after every operation,      *)
(* under the intended semantics and, where it differs, under the deviation   *)
(* `shared-receiver` (F12: the receiver of a method is kept in one cell per  *)
(* method name, shared by all arrays, written when the method is looked up   *)
(* and read when it is called: in a.push(b.push(1)) the outer call acts on   *)
(* b).                                                                       *)
(* Mode = "depth": <= MaxOps operations over Small; "breadth": over Big;     *)
(* "nested" / "nestedbig": <= MaxOps operations over SmallN / BigN on arrays *)
(* that hold arrays: a[i].m(args) with arguments that change a itself;       *)
(* "given": the histories of given.json, each with its own initial arrays    *)
(* (long arrays with many ties for sort / contains).                         *)
EXTENDS JqHeap
CONSTANTS Mode, MaxOps

(* alphabets *)
NArr == IF Mode = "given" THEN 3 ELSE 2
AB == {"a", "b"}
PushVals == {Num(2), Num(10), Str("b"), Null, Bool(TRUE)}
FindVals == {Num(2), Str("b"), Null, Num(0), Num(1)}
Call0(m, a) == LCall(m, a, <<>>)
Call1(m, a, x) == LCall(m, a, <<x>>)
\* LGet(y, 5) reads past the end, LMiss a missing member of an object: both null, and the null that is
\* pushed is an ordinary element (a later a[i] = v / ++a[i] changes that element and nothing else)
Inner(y) == {Call0("pop", y), Call0("popfirst", y), Call0("length", y), Call0("sort", y), LGet(y, 0), LGet(y, -1), LGet(y, 5), LMiss,
             Call1("push", y, LLit(Num(2))), Call1("push", y, LLit(Str("b"))), Call1("contains", y, LLit(Num(2)))}
Big ==
  {SExpr(Call1("push", a, LLit(v))) : a \in AB, v \in PushVals}
  \cup {SExpr(Call0(m, a)) : m \in {"pop", "popfirst", "length", "sort"}, a \in AB}
  \cup {SExpr(Call1("contains", a, LLit(v))) : a \in AB, v \in FindVals}
  \cup {SExpr(LGet(a, i)) : a \in AB, i \in {0, 1, 3, -1, -3}}
  \* index writes: in range, appending, one past the end, two and more past the end (several padding
  \* nulls made by one write, each of which a later write / ++ must be able to change alone), negative
  \cup {SSet(a, i, Num(7)) : a \in AB, i \in {0, 1, 2, 4, -1, -3}}
  \cup {SSet(a, 3, Str("b")) : a \in AB}
  \cup {SInc(a, i) : a \in AB, i \in {0, 1, 2, -1, -2}}
  \cup {SExpr(Call1(m, a, x)) : m \in {"push", "contains"}, a \in AB, x \in UNION {Inner(y) : y \in AB}}
  \cup {SExpr(Call1("push", a, Call1("push", b, Call0("pop", a)))) : a, b \in AB}
  \cup {SExpr(Call1("contains", a, Call1("contains", b, Call0("length", a)))) : a, b \in AB}
Small ==
  {SExpr(Call1("push", a, LLit(v))) : a \in AB, v \in {Num(2), Str("b")}}
  \cup {SExpr(Call1("push", "a", LLit(v))) : v \in {Num(10), Null, Bool(TRUE)}}
  \cup {SExpr(Call0(m, "a")) : m \in {"pop", "popfirst", "length", "sort"}}
  \cup {SExpr(Call0("popfirst", "b")), SExpr(Call0("sort", "b"))}
  \cup {SExpr(Call1("contains", "a", LLit(v))) : v \in {Num(2), Null, Num(0)}}
  \cup {SExpr(Call1("push", "a", LGet("b", 5))), SExpr(Call1("push", "a", LGet("a", 5)))}   \* followed by a[2] = 7 / a[0] = 7
  \cup {SExpr(LGet("a", -1)), SExpr(LGet("a", -3)), SSet("a", 0, Num(7)), SSet("a", 2, Num(7)), SSet("b", -1, Num(7))}
  \cup {SSet("b", 3, Num(7)), SSet("b", 1, Str("b"))}     \* two padding nulls, then one of them written
  \cup {SExpr(Call1("push", "a", Call1("push", "b", LLit(Num(2))))), SExpr(Call1("push", "b", Call0("pop", "a"))),
        SExpr(Call1("push", "a", Call0("popfirst", "a"))), SExpr(Call1("contains", "a", Call0("length", "b"))),
        SExpr(Call1("contains", "a", Call1("contains", "b", LLit(Num(2))))),
        SExpr(Call1("push", "a", Call1("push", "b", Call0("pop", "a")))) }

\* arrays inside arrays: the receiver is an element of a / b, the arguments change a / b themselves
CallAt0(m, a, i) == LCallAt(m, a, i, <<>>)
CallAt1(m, a, i, x) == LCallAt(m, a, i, <<x>>)
RecvIdx == {0, 1, -1, -2}
ArgsN(y) == {Call0("pop", y), Call0("popfirst", y), Call0("length", y), LGet(y, 1), CallAt0("pop", y, 0), CallAt0("length", y, -1),
             Call1("contains", y, LLit(Num(5)))}
OuterN == {SExpr(Call0(m, a)) : m \in {"pop", "popfirst", "length"}, a \in AB}
          \cup {SExpr(Call1("push", a, LLit(v))) : a \in AB, v \in {Num(2), Str("b")}}
          \cup {SExpr(LGet(a, i)) : a \in AB, i \in {0, -1}}
BigN ==
  {SExpr(CallAt1(m, a, i, x)) : m \in {"push", "contains"}, a \in AB, i \in RecvIdx, x \in {LLit(Num(2))} \cup UNION {ArgsN(y) : y \in AB}}
  \cup {SExpr(CallAt0(m, a, i)) : m \in {"pop", "popfirst", "length", "sort"}, a \in AB, i \in RecvIdx}
  \cup OuterN
SmallN ==
  UNION {{SExpr(CallAt1(m, a, i, x)) : m \in {"push", "contains"}, i \in {0, -1, -2}, x \in {Call0("pop", a), Call0("popfirst", a), Call0("length", a)}} : a \in AB}
  \cup {SExpr(CallAt1("push", "a", i, x)) : i \in {0, -1}, x \in {LLit(Num(2)), Call0("pop", "b"), CallAt0("pop", "a", 0), LGet("b", 1)}}
  \cup {SExpr(CallAt0(m, a, -1)) : m \in {"pop", "popfirst", "length", "sort"}, a \in AB}
  \cup {SExpr(Call0("popfirst", "a")), SExpr(Call0("pop", "b")), SExpr(Call1("push", "a", LLit(Num(2)))), SExpr(LGet("a", -1))}

-----------------------------------------------------------------------------
Init0 == LS(<<ArrC(<<Num(10), Num(2)>>), ArrC(<<Str("b")>>), ArrC(<<>>)>>, {}, {})
\* a = [[1], [2, 5]], b = [[3], 5, [5, 2]]
InitN == LS(<<ArrC(<<Arr(4), Arr(5)>>), ArrC(<<Arr(6), Num(5), Arr(7)>>), ArrC(<<>>),
              ArrC(<<Num(1)>>), ArrC(<<Num(2), Num(5)>>), ArrC(<<Num(3)>>), ArrC(<<Num(5), Num(2)>>)>>, {}, {})

(* spec-level laws of the ideal list, evaluated on every step *)
\* a law: where its antecedent holds its consequence must; chk records that it was exercised (vacuity)
L(name, ante, conseq) == [bad |-> IF ante /\ ~conseq THEN {name} ELSE {}, chk |-> IF ante THEN {name} ELSE {}]
LAll(ls) == [bad |-> UNION {l.bad : l \in ls}, chk |-> UNION {l.chk : l \in ls}]
NoLaw == [bad |-> {}, chk |-> {}]
Count(s, v) == Cardinality({i \in 1..Len(s) : s[i] = v})
\* position in srt of the occurrence of old[i] that corresponds to it (the k-th equal value stays the k-th)
PosOf(srt, old, i) == CHOOSE x \in 1..Len(srt) :
   srt[x] = old[i] /\ Cardinality({y \in 1..x : srt[y] = old[i]}) = Cardinality({y \in 1..i : old[y] = old[i]})
IsTop(st) == st.op = "expr" /\ st.x.e = "call" /\ (st.x.args = <<>> \/ st.x.args[1].e = "lit")
StepLaws(s, st, r) ==
  LET top == IsTop(st) /\ r.status = "ok"
      m == st.x.m
      id == Id(st.x.a)
      old == s.h[id].items
      new == r.s.h[id].items
      arg == st.x.args[1].v
      others == \A k \in Named \ {id} : r.s.h[k] = s.h[k]
      keys == SortKey(old)
      srt == r.s.h[r.res.id].items
  IN LAll({
  L("push", top /\ m = "push", new = Append(old, arg) /\ r.res = Arr(id) /\ others),
  L("pop", top /\ m = "pop", others /\ IF old = <<>> THEN new = old /\ r.res = Null ELSE new \o <<r.res>> = old),
  L("popfirst", top /\ m = "popfirst", others /\ IF old = <<>> THEN new = old /\ r.res = Null ELSE <<r.res>> \o new = old),
  L("length", top /\ m = "length", r.s.h = s.h /\ r.res = Num(Len(old))),
  \* pop after push returns the pushed value and restores the array
  L("poppush", TRUE, \A v \in PushVals, k \in Named :
        LET p == ListPush(s.h, k, v) IN ListPop(p.h, k).res = v /\ ListPop(p.h, k).h = s.h),
  \* first in, first out
  L("fifo", \E k \in Named : s.h[k].items = <<>>, \A v, w \in PushVals, k \in Named : s.h[k].items = <<>> =>
        LET p == ListPush(ListPush(s.h, k, v).h, k, w)
            q == ListPopFirst(p.h, k)
        IN q.res = v /\ ListPopFirst(q.h, k).res = w /\ ListPopFirst(q.h, k).h = s.h),
  \* sort: receiver untouched, a fresh array, a permutation, ordered by the key, stable
  L("sort", top /\ m = "sort",
        /\ r.s.h[id] = s.h[id] /\ others /\ r.res.t = "arr" /\ r.res.id \notin Named
        /\ Len(srt) = Len(old) /\ \A v \in {old[i] : i \in 1..Len(old)} : Count(srt, v) = Count(old, v)
        /\ LET k2 == SortKey(srt) IN \A i \in 1..(Len(srt) - 1) : k2[i] <= k2[i + 1]
        /\ \A i, j \in 1..Len(old) : (i < j /\ keys[i] = keys[j] /\ old[i] # old[j]) => PosOf(srt, old, i) < PosOf(srt, old, j)),
  L("sortstable", top /\ m = "sort" /\ \E i, j \in 1..Len(old) : i < j /\ keys[i] = keys[j] /\ old[i] # old[j], TRUE),
  L("sortnumeric", top /\ m = "sort" /\ AllNums(old) /\ \E i, j \in 1..Len(old) : old[i].n < old[j].n /\ StrRank(StrOf(old[j])) < StrRank(StrOf(old[i])),
        \A i \in 1..(Len(srt) - 1) : srt[i].n <= srt[i + 1].n),
  \* contains: == against each element in order
  L("contains", IsTop(st) /\ m = "contains" /\ r.status \in {"ok", "error"},
        LET hit == {i \in 1..Len(old) : CmpEq(arg, old[i]).ok /\ CmpEq(arg, old[i]).eq}
            bad == {i \in 1..Len(old) : ~CmpEq(arg, old[i]).ok}
            first(S) == IF S = {} THEN Len(old) + 1 ELSE SetMin(S)
        IN IF first(bad) < first(hit) THEN r.status = "error"
           ELSE r.status = "ok" /\ r.res = Bool(hit # {}) /\ r.s.h = s.h),
  L("containserr", IsTop(st) /\ m = "contains" /\ r.status = "error", TRUE),
  L("get", st.op = "expr" /\ st.x.e = "get" /\ r.status = "ok",
        LET a == s.h[Id(st.x.a)].items  j == Norm(Len(a), st.x.i) IN r.s = s /\ r.res = (IF j < Len(a) THEN a[j + 1] ELSE Null)),
  \* pushing the value of a read past the end / of a missing member appends a plain null
  L("pushabsent", st.op = "expr" /\ st.x.e = "call" /\ m = "push" /\ r.status = "ok" /\ st.x.args[1].e \in {"miss", "get"}
                  /\ (st.x.args[1].e = "get" => Norm(Len(s.h[Id(st.x.args[1].a)].items), st.x.args[1].i) >= Len(s.h[Id(st.x.args[1].a)].items)),
        new = Append(old, Null) /\ others),
  L("inc", st.op = "inc" /\ r.status = "ok",
        LET a == s.h[Id(st.a)].items
            b == r.s.h[Id(st.a)].items
            j == Norm(Len(a), st.i)
        IN /\ b = [a EXCEPT ![j + 1] = Num(NumOf(a[j + 1]) + 1)] /\ r.res = b[j + 1]
           /\ \A k \in Named \ {Id(st.a)} : r.s.h[k] = s.h[k]),
  L("neg", st.op = "expr" /\ st.x.e = "get" /\ st.x.i < 0,
        LET a == s.h[Id(st.x.a)].items IN (r.status = "error") = (Len(a) + st.x.i < 0)),
  L("set", st.op = "set" /\ r.status = "ok",
        LET a == s.h[Id(st.a)].items
            b == r.s.h[Id(st.a)].items
            j == Norm(Len(a), st.i)
        IN /\ b[j + 1] = st.v /\ Len(b) = (IF j + 1 > Len(a) THEN j + 1 ELSE Len(a))
           /\ \A i \in 1..Len(b) : i # j + 1 => b[i] = (IF i <= Len(a) THEN a[i] ELSE Null)
           /\ \A k \in Named \ {Id(st.a)} : r.s.h[k] = s.h[k]),
  \* a nested call on the other array leaves the outer call's receiver the outer one
  L("nested", st.op = "expr" /\ st.x.e = "call" /\ st.x.args # <<>> /\ st.x.args[1].e = "call" /\ r.status = "ok" /\ m = "push",
        Len(new) >= 1 /\ r.res = Arr(id)),
  \* a[i].push(x) acts on the array a[i] held when the call was entered: that array ends with the value
  \* of x and is the result, whatever evaluating x did to a; no other array grows
  L("recv", st.op = "expr" /\ st.x.e = "callat" /\ m = "push" /\ r.status = "ok",
        LET rid == RecvAt(s, st.x.a, st.x.i).id
            ra == Eval(s, st.x.args[1])             \* the argument alone
            now == r.s.h[rid].items
        IN /\ r.res = Arr(rid) /\ now # <<>> /\ now[Len(now)] = ra.res
           /\ \A k \in 1..Len(ra.s.h) : k # rid => r.s.h[k] = ra.s.h[k]),
  \* ... also when evaluating x removed that array from a or moved it to another index
  L("recvmoved", st.op = "expr" /\ st.x.e = "callat" /\ st.x.args # <<>> /\ r.status = "ok"
                 /\ LET rc == RecvAt(r.s, st.x.a, st.x.i) IN rc.st # "ok" \/ rc.id # RecvAt(s, st.x.a, st.x.i).id, TRUE) })

-----------------------------------------------------------------------------
VARIABLES hist, cur, sts, out, fin, law, idx
vars == <<hist, cur, sts, out, fin, law, idx>>

Apply2(h, c, g, o, st, rI) ==
  LET rD == IF g["D"] # "ok" THEN ER(c["D"], Null, IF g["D"] = "wild" THEN "wild" ELSE "dead")
            ELSE LET r == Exec(c["D"], st, TRUE) IN IF r.status = "open" THEN [r EXCEPT !.status = "wild"] ELSE r
      eI == LExpect(rI.s, st, rI.res, rI.status, NArr)
      eD == LExpect(rD.s, st, rD.res, rD.status, NArr)
  IN [hist |-> Append(h, st),
      cur |-> [I |-> rI.s, D |-> rD.s],
      sts |-> [I |-> rI.status, D |-> rD.status],
      out |-> Append(o, [exp |-> eI, dev |-> IF eD = eI THEN <<>> ELSE <<eD>>]),
      fin |-> rI.status # "ok",
      law |-> StepLaws(c["I"], st, rI)]
StartFrom(i0) == [hist |-> <<>>, cur |-> [I |-> i0, D |-> i0], sts |-> [I |-> "ok", D |-> "ok"], out |-> <<>>, fin |-> FALSE, law |-> NoLaw]
Start == StartFrom(IF Mode \in {"nested", "nestedbig"} THEN InitN ELSE Init0)

RECURSIVE RunGiven(_, _)
RunGiven(s, ops) ==
  IF ops = <<>> \/ s.fin THEN s
  ELSE LET rI == Exec(s.cur["I"], Head(ops), FALSE) IN
       IF rI.status \notin {"ok", "error"} THEN RunGiven(s, Tail(ops))
       ELSE LET t == Apply2(s.hist, s.cur, s.sts, s.out, Head(ops), rI) IN RunGiven([t EXCEPT !.law = LAll({@, s.law})], Tail(ops))
\* given.json: a sequence of [init |-> <<items of a, items of b, items of c>>, ops |-> statements]
Given == IF Mode = "given" THEN JsonDeserialize("given.json") ELSE <<>>
GivenInit(g) == LS([k \in 1..3 |-> ArrC(g.init[k])], {}, {})

Init == /\ hist = <<>> /\ cur = Start.cur /\ sts = Start.sts /\ out = <<>> /\ fin = FALSE /\ law = NoLaw
        /\ idx \in (IF Mode = "given" THEN 1..Len(Given) ELSE {0})
NextGiven ==
  /\ Mode = "given" /\ hist = <<>> /\ ~fin
  /\ LET s == RunGiven(StartFrom(GivenInit(Given[idx])), Given[idx].ops) IN
     /\ hist' = s.hist /\ cur' = s.cur /\ sts' = s.sts /\ out' = s.out /\ law' = s.law /\ fin' = TRUE
  /\ UNCHANGED idx
NextOp ==
  /\ Mode # "given" /\ ~fin /\ Len(hist) < MaxOps /\ UNCHANGED idx
  /\ \E st \in (CASE Mode = "depth" -> Small [] Mode = "breadth" -> Big [] Mode = "nested" -> SmallN [] Mode = "nestedbig" -> BigN) :
       LET rI == Exec(cur["I"], st, FALSE) IN
       /\ rI.status \in {"ok", "error"}
       /\ LET s == Apply2(hist, cur, sts, out, st, rI) IN
          /\ hist' = s.hist /\ cur' = s.cur /\ sts' = s.sts /\ out' = s.out /\ law' = s.law /\ fin' = s.fin
Next == NextGiven \/ NextOp
Laws == law.bad = {}

RECURSIVE Compact(_)
Compact(tr) ==
  CASE tr.t = "num" -> tr.n [] tr.t = "str" -> tr.s [] tr.t = "bool" -> tr.b
    [] tr.t = "arr" -> [i \in 1..Len(tr.items) |-> Compact(tr.items[i])]
    [] OTHER -> "~" \o tr.t
CompactExp(e) == IF e.st # "ok" THEN e
                 ELSE [st |-> "ok", res |-> Compact(e.res), arrs |-> [k \in 1..Len(e.arrs) |-> Compact(e.arrs[k])], lens |-> e.lens]
InitOf == IF Mode = "given" THEN GivenInit(Given[idx]) ELSE Start.cur["I"]
Vec == hist # <<>> => Emit([ops |-> hist, chk |-> law.chk, init |-> [k \in 1..NArr |-> Compact(LTree(InitOf, Arr(k), TRUE, 5))], steps |-> [i \in 1..Len(out) |->
          [exp |-> CompactExp(out[i].exp), dev |-> [k \in 1..Len(out[i].dev) |-> CompactExp(out[i].dev[k])]]]])
=============================================================================
