---------------------------- MODULE MC_MatchLit ----------------------------
(* C19, literal patterns as written: every literal spelling of the bounded  *)
(* universe below, at every position of a case list (alone, after / before  *)
(* another literal in the same case, in a later case, as an element of an   *)
(* array pattern next to a binding, nested twice), against every subject    *)
(* (all byte strings up to MaxSubj over a, \, n, t, newline, tab; numeric   *)
(* and other strings; numbers; true false null; arrays).                    *)
(*   phase 1 (Init):  one state per literal: the laws of its denotation and *)
(*                    an "eq" vector (which subjects equal it: replayed as  *)
(*                    `$ == literal`, the premise of the match vectors)     *)
(*   phase 2 (Next):  shape and partner literal: the laws of the selection  *)
(*                    and a "match" vector (subjects grouped by the set of  *)
(*                    admitted observations)                                *)
(* Source text is emitted as bytes, subjects as descriptors the harness     *)
(* turns into JSON input values.                                            *)
EXTENDS JqMatchLit
CONSTANTS MaxLit,     \* longest escape-alphabet string literal body
          MaxSubj,    \* longest escape-alphabet subject string
          Big         \* FALSE: quick pools, TRUE: thorough pools

\* ---- literals
EscAlpha == {"a", "\\", "n", "t"}
EscBodies == {b \in SeqsUpTo(EscAlpha, MaxLit) : L!StrValue(b).ok}
OtherTexts == {"1", "01", "1.0", "1.5", "10", "0", " 1", "A", "a ", "ab", "true", "null", "-1"}
              \cup (IF Big THEN {"1e1", "1.", ".5", "aa", "b", "0.0", "false", "[]", "a\\"} ELSE {})
OtherBodies == {b \in {Chars(s) : s \in OtherTexts} : L!StrValue(b).ok}
StrBodies == EscBodies \cup OtherBodies
IntParts == {Chars(s) : s \in {"0", "1", "2", "10", "01", "00"} \cup (IF Big THEN {"12", "20", "100", "001", "7"} ELSE {})}
FracParts == {Chars(s) : s \in {"", ".0", ".5", ".50"} \cup (IF Big THEN {".25", ".00", ".05"} ELSE {})}
NumTexts == {ip \o fp : ip \in IntParts, fp \in FracParts}

\* a literal of the model: the token and, for strings, the quote it is written with
QLit(tag, text, q) == [tag |-> tag, text |-> text, q |-> q]
Tok(ql) == Lit(ql.tag, ql.text)
Lits == {QLit("Str", b, q) : b \in StrBodies, q \in L!Quotes}
        \cup {QLit("Num", t, "") : t \in NumTexts}
        \cup {QLit("true", <<>>, ""), QLit("false", <<>>, ""), QLit("null", <<>>, "")}
Partners == {QLit("Str", <<"a">>, "'"), QLit("Num", <<"1">>, "")}
            \cup (IF Big THEN {QLit("Str", <<"\\", "t">>, "\""), QLit("Str", <<"1">>, "\"")} ELSE {})

\* ---- subjects: descriptors [k, s, t, a] (s: bytes of a string, t: JSON spelling of a
\* number or of true/false/null, a: elements)
DStr(s)  == [k |-> "str", s |-> s,    t |-> <<>>, a |-> <<>>]
DNum(t)  == [k |-> "num", s |-> <<>>, t |-> t,    a |-> <<>>]
DWord(t) == [k |-> "word", s |-> <<>>, t |-> t,   a |-> <<>>]
DArr(a)  == [k |-> "arr", s |-> <<>>, t |-> <<>>, a |-> a]
RECURSIVE Val(_)
Val(d) ==
  CASE d.k = "str" -> WStr(d.s)
    [] d.k = "num" -> NumOfText(d.t)
    [] d.k = "word" -> (IF d.t = Chars("true") THEN V!VBool(TRUE) ELSE IF d.t = Chars("false") THEN V!VBool(FALSE) ELSE V!VNull)
    [] d.k = "arr" -> WArr([i \in 1..Len(d.a) |-> Val(d.a[i])])

SubjAlpha == {"a", "\\", "n", "t", NL, TAB}
SubjStrings == SeqsUpTo(SubjAlpha, MaxSubj) \cup StrBodies
               \cup {L!StrValue(b).val : b \in StrBodies}
               \cup {Chars(s) : s \in {"1.00", "2", "0.5", "true", "false", "1e0", "+1", "aA", "B"}}
               \cup NumTexts
SubjNums == {Chars(s) : s \in {"0", "1", "2", "1.5", "10", "0.5", "100", "-1", "1.25", "12", "20", "7", "0.05"}}
ScalarSubjects == {DStr(s) : s \in SubjStrings} \cup {DNum(t) : t \in SubjNums}
                  \cup {DWord(Chars("true")), DWord(Chars("false")), DWord(Chars("null"))}
ArraySubjects == {DArr(<<>>), DArr(<<DStr(<<"a">>)>>), DArr(<<DArr(<<DStr(<<"a">>)>>), DNum(<<"7">>)>>)}
                 \cup (IF Big THEN {DArr(<<DNum(<<"1">>)>>), DArr(<<DStr(<<"a">>), DNum(<<"7">>)>>)} ELSE {})
Subjects == ScalarSubjects \cup ArraySubjects
\* the value of every subject, computed once
ValOf == [d \in Subjects |-> Val(d)]

\* ---- shapes: the case list built around the literal P under test (Q: the partner),
\* and the subject expression.  Bodies: 'c<k>' (a constant), m('k<k>') (prints
\* "m k<k>", value k<k>), y (the name bound next to the literal: the number 7)
Seven == DNum(<<"7">>)
Shapes == {"top", "only", "alt2", "alt1", "case2", "elem1", "elem2", "deep"}
UsesPartner(sh) == sh \in {"alt2", "alt1", "case2"}
Case(alts, body) == [alts |-> alts, body |-> body]
Cases(sh, P, Q) ==
  LET p == PLit(Tok(P))
      q == PLit(Tok(Q))
      all == Case(<<PId("x")>>, "c")
  IN CASE sh = "top"   -> <<Case(<<p>>, "c"), all>>
       [] sh = "only"  -> <<Case(<<p>>, "m")>>
       [] sh = "alt2"  -> <<Case(<<q, p>>, "m"), all>>
       [] sh = "alt1"  -> <<Case(<<p, q>>, "m"), all>>
       [] sh = "case2" -> <<Case(<<q>>, "c"), Case(<<p>>, "m"), all>>
       [] sh = "elem1" -> <<Case(<<PArr(<<p, PId("y")>>)>>, "y"), all>>
       [] sh = "elem2" -> <<Case(<<PArr(<<PId("y"), p>>)>>, "y"), all>>
       [] sh = "deep"  -> <<Case(<<PArr(<<PArr(<<p>>), PId("y")>>)>>, "y"), Case(<<PArr(<<PId("u"), PId("y")>>)>>, "c"), all>>
\* the subject expression applied to the input value $
Wrap(sh, v) ==
  CASE sh = "elem1" -> WArr(<<v, Val(Seven)>>)
    [] sh = "elem2" -> WArr(<<Val(Seven), v>>)
    [] sh = "deep"  -> WArr(<<WArr(<<v>>), Val(Seven)>>)
    [] OTHER -> v
SubjectExpr(sh) ==
  CASE sh = "elem1" -> Chars("[$, 7]") [] sh = "elem2" -> Chars("[7, $]") [] sh = "deep" -> Chars("[[$], 7]")
    [] OTHER -> Chars("$")

\* ---- outcome of `print match (<subject expr>) { cases }` for the input value v
Digit1(k) == SubSeq("123", k, k)
\* printed form of a value the bodies of the model can yield (strings, numbers)
Printed(val) == V!StrOf(val)
Outcome(v, cs, rd) ==
  LET r == SelectFrom(v, cs, 1, rd, {}) IN
  IF r.m = "err" THEN [cls |-> "runtime", sel |-> r.sel, lines |-> <<>>]
  ELSE IF r.m = "no" THEN [cls |-> "ok", sel |-> 0, lines |-> <<Chars("null")>>]
  ELSE LET body == cs[r.sel].body IN
       [cls |-> "ok", sel |-> r.sel,
        lines |-> CASE body = "c" -> <<<<"c", Digit1(r.sel)>>>>
                    [] body = "m" -> <<<<"m", " ", "k", Digit1(r.sel)>>, <<"k", Digit1(r.sel)>>>>
                    [] body = "y" -> <<Printed(Lookup(r.b, "y"))>>]
Admitted(v, cs) == {Outcome(v, cs, rd) : rd \in Readings}
\* the readings differ only where an array meets a literal (law ReadingLaw): for a
\* scalar input value one evaluation is enough
AdmittedFor(s, sh, cs) ==
  IF s \in ScalarSubjects THEN {Outcome(Wrap(sh, ValOf[s]), cs, "lenient")} ELSE Admitted(Wrap(sh, ValOf[s]), cs)

VARIABLES lit, shape, partner, done
vars == <<lit, shape, partner, done>>
NoPartner == QLit("null", <<>>, "-")

Init == /\ lit \in Lits /\ shape = "" /\ partner = NoPartner /\ done = FALSE
Next == /\ ~done /\ done' = TRUE /\ UNCHANGED lit
        /\ shape' \in Shapes
        /\ partner' \in (IF UsesPartner(shape') THEN Partners ELSE {NoPartner})

\* ------------------------------------------------------------------------
\* Laws of the denotation (phase 1: the literal alone)
HasBackslash(b) == \E i \in 1..Len(b) : b[i] = "\\"
Printable(b) == \A i \in 1..Len(b) : b[i] \notin {NL, TAB}
StrSubj == {d \in ScalarSubjects : d.k = "str"}
\* `subject == denoted value`
EqD(s, d) == ValCmp(ValOf[s], d.v) = "eq"
LitLaws == ~done =>
  LET P == Tok(lit)
      d == Denote(P)
      cmp == [s \in Subjects |-> ValCmp(ValOf[s], d.v)]
  IN /\ d.ok
     \* the pattern as built compares with the denotation of its token
     /\ \A s \in Subjects : /\ PatCmp(ValOf[s], PLit(P).v) = cmp[s]
                             /\ (s.k # "str" \/ Len(s.s) <= 1) => SrcCmp(ValOf[s], P) = cmp[s]
     \* ValCmp is JqValue's `==` (wherever JqValue orders the bytes involved)
     /\ \A s \in Subjects :
          (s.k = "str" /\ d.v.k = "str" => Printable(s.s) /\ Printable(d.v.s)) =>
             LET c == V!Cmp(Plain(ValOf[s]), Plain(d.v))
             IN cmp[s] = (IF ~c.ok THEN "err" ELSE IF c.c = 0 THEN "eq" ELSE "ne")
     \* a literal pattern matches the value it denotes
     /\ ValCmp(d.v, d.v) = "eq"
     \* null: matched by the null literal only; an array is never equal to a literal
     /\ \A s \in Subjects : ValOf[s].k = "null" => cmp[s] = (IF P.tag = "null" THEN "eq" ELSE "ne")
     /\ \A s \in ArraySubjects : cmp[s] = (IF P.tag = "null" THEN "ne" ELSE "err")
     /\ P.tag = "Str" =>
          \* among strings it matches exactly one: no coercion, no trimming, no case folding
          /\ \A s \in StrSubj : (cmp[s] = "eq") <=> (s.s = d.v.s)
          /\ DStr(d.v.s) \in StrSubj
          \* without a backslash the body is the value; with one, the value is shorter than the
          \* body, so the body taken as a string (also a subject) is NOT matched
          /\ ~HasBackslash(P.text) => d.v.s = P.text
          /\ HasBackslash(P.text) => (Len(d.v.s) < Len(P.text) /\ DStr(P.text) \in StrSubj /\ cmp[DStr(P.text)] = "ne")
          \* the spelling that JqLex!Escape gives the value denotes the same value
          /\ Denote(Lit("Str", L!Escape(d.v.s))) = d
     /\ P.tag = "Num" =>
          \* every spelling of a number is the same pattern as its canonical spelling (JqLex!NumCanon),
          \* and the subjects spelled like the literal (as a string) or canonically (as a number) are matched
          LET canon == L!NumCanon(L!NumValue(P.text)) IN
          /\ Denote(Lit("Num", canon)) = d
          /\ ValCmp(NumOfText(canon), d.v) = "eq"
          /\ DStr(P.text) \in StrSubj /\ cmp[DStr(P.text)] = "eq"
     \* true is the number 1, false the number 0 (except against booleans, where they are themselves)
     /\ P.tag \in {"true", "false"} =>
          LET asnum == Denote(Lit("Num", IF P.tag = "true" THEN <<"1">> ELSE <<"0">>)) IN
          \A s \in Subjects : cmp[s] = ValCmp(ValOf[s], asnum.v)

\* Laws of the selection (phase 2)
SelLaws == done =>
  LET cs == Cases(shape, lit, partner)
      top == Cases("top", lit, partner)
      dP == Denote(Tok(lit))
      dQ == Denote(Tok(partner))
  IN \A s \in Subjects :
       LET v == Wrap(shape, ValOf[s])
           o == Outcome(v, cs, "lenient")
           n == Len(cs)
           S == {k \in 1..n : \E i \in 1..Len(cs[k].alts) : MatchPat(v, cs[k].alts[i], "lenient").m = "yes"}
       IN \* the statement's wording: the least case one of whose patterns matches
          /\ o.cls = "ok" /\ o.sel = (IF S = {} THEN 0 ELSE SetMin(S))
          \* ReadingLaw: for a scalar input value all readings agree and no run errs;
          \* an erring run is an array meeting a non-null literal, nothing else
          /\ (s \in ScalarSubjects /\ (Big \/ Len(s.s) <= 1)) => Admitted(v, cs) = {o}
          /\ s \in ArraySubjects =>
               ((\E a \in Admitted(v, cs) : a.cls = "runtime") => (lit.tag # "null" \/ (UsesPartner(shape) /\ partner.tag # "null")))
          \* what each shape selects, in terms of `==` alone (scalar subjects)
          /\ s \in ScalarSubjects =>
               CASE shape \in {"top", "elem1", "elem2"} -> o.sel = (IF EqD(s, dP) THEN 1 ELSE 2)
                 [] shape = "deep" -> o.sel = (IF EqD(s, dP) THEN 1 ELSE 2)
                 [] shape = "only" -> o.sel = (IF EqD(s, dP) THEN 1 ELSE 0)
                 [] shape \in {"alt1", "alt2"} -> o.sel = (IF EqD(s, dP) \/ EqD(s, dQ) THEN 1 ELSE 2)
                 [] shape = "case2" -> o.sel = (IF EqD(s, dQ) THEN 1 ELSE IF EqD(s, dP) THEN 2 ELSE 3)
          \* position independence: nested in an array pattern the literal selects as at top level
          /\ (s \in ScalarSubjects /\ shape \in {"elem1", "elem2", "deep"}) =>
               (o.sel = 1) = (Outcome(ValOf[s], top, "lenient").sel = 1)
          \* the name bound next to the literal is the element next to the subject
          /\ (o.sel = 1 /\ shape \in {"elem1", "elem2", "deep"}) => o.lines = <<<<"7">>>>

Laws == LitLaws /\ SelLaws

\* ------------------------------------------------------------------------
\* Vectors
LitSrc(ql) ==
  CASE ql.tag = "Str" -> <<ql.q>> \o ql.text \o <<ql.q>>
    [] ql.tag = "Num" -> ql.text
    [] OTHER -> Chars(ql.tag)
RECURSIVE PatSrc(_, _)
PatSrc(p, ql) ==    \* ql: per literal token, how it is written
  CASE p.t = "lit" -> LitSrc(CHOOSE x \in ql : Tok(x) = p.v.tok)
    [] p.t = "id" -> <<p.name>>
    [] p.t = "arr" -> <<"[">> \o FlattenSeq([i \in 1..Len(p.items) |-> (IF i > 1 THEN <<",", " ">> ELSE <<>>) \o PatSrc(p.items[i], ql)]) \o <<"]">>
BodySrc(body, k) ==
  CASE body = "c" -> <<"'", "c", Digit1(k), "'">>
    [] body = "m" -> Chars("m('k") \o <<Digit1(k)>> \o Chars("')")
    [] body = "y" -> <<"y">>
CaseSrc(c, k, ql) ==
  FlattenSeq([i \in 1..Len(c.alts) |-> (IF i > 1 THEN <<",", " ">> ELSE <<>>) \o PatSrc(c.alts[i], ql)])
  \o Chars(" => ") \o BodySrc(c.body, k)
MatchSrc(sh, P, Q) ==
  LET cs == Cases(sh, P, Q) IN
  Chars("match (") \o SubjectExpr(sh) \o Chars(") { ")
  \o FlattenSeq([k \in 1..Len(cs) |-> (IF k > 1 THEN <<",", " ">> ELSE <<>>) \o CaseSrc(cs[k], k, {P, Q})])
  \o Chars(" }")

\* a scalar subject as one flat text: a kind letter (s string, n number, w true/false/null), then its bytes / JSON spelling
Enc(d) == IF d.k = "str" THEN <<"s">> \o d.s ELSE IF d.k = "num" THEN <<"n">> \o d.t ELSE <<"w">> \o d.t
ASSUME Partners \subseteq Lits

Vec ==
  IF ~done
  THEN LET d == Denote(Tok(lit)) IN
       Emit([kind |-> "eq", lit |-> LitSrc(lit),
             eq |-> {Enc(s) : s \in {x \in ScalarSubjects : EqD(x, d)}},
             ne |-> {Enc(s) : s \in {x \in ScalarSubjects : ~EqD(x, d)}}])
  ELSE LET cs == Cases(shape, lit, partner)
           adm == [s \in Subjects |-> AdmittedFor(s, shape, cs)]
           groups == {adm[s] : s \in Subjects}
       IN Emit([kind |-> "match", shape |-> shape, src |-> MatchSrc(shape, lit, partner),
                lits |-> (IF UsesPartner(shape) THEN {LitSrc(lit), LitSrc(partner)} ELSE {LitSrc(lit)}),
                groups |-> {[exp |-> g,
                             subjs |-> {Enc(s) : s \in {x \in ScalarSubjects : adm[x] = g}},
                             arrs |-> {x \in ArraySubjects : adm[x] = g}] : g \in groups}])
=============================================================================
