------------------------------ MODULE MC_Ops ------------------------------
(* C05: every operator x every ordered pair of operands from a universe    *)
(* that holds, for every kind, its boundary representatives.  One vector    *)
(* per cell of the tables of DESIGN.md section 3; the laws protect the      *)
(* transcription (JqValue) against mistakes.                                *)
(* Beyond the single cells:                                                 *)
(*   nest   composed expressions (JqValue.EvalTree): unary over binary and  *)
(*          unary over unary on the whole universe, binary over binary (both *)
(*          shapes) on a reduced one; laws: where a negated comparison is    *)
(*          the opposite comparison and where it is not (unset), De Morgan,  *)
(*          error propagation and short circuit at depth, associativity      *)
(*   site   one source-level operator expression evaluated once per operand *)
(*   usite  of the universe in ONE run, the changing operand reaching it as  *)
(*          a for-in variable (elements, values, keys, characters, index),   *)
(*          a parameter, a reassigned variable, an indexed member: every     *)
(*          evaluation yields its own cell's result                          *)
(*   spell  the NON-FINITE numeric strings: every spelling ([sign] inf,      *)
(*          [sign] infinity, nan, every letter case) and strings that are    *)
(*          nearly one, in every numeric context (each arithmetic and        *)
(*          comparison operator on either side against partners of several   *)
(*          kinds, the unary operators, ++ and --)                           *)
(*   made   COMPUTED operands: a number that is the RESULT of earlier        *)
(*          arithmetic / coercion (the only way a number-tagged NaN or        *)
(*          infinity exists: +"nan", inf - inf, 0 * inf, overflow of * + - /  *)
(*          on doubles near 2^1023), every maker x every operator x either    *)
(*          side x partners of every kind, and maker x maker; the result of a *)
(*          cell depends on num() of the operands only, however they arose    *)
(*   fnval  every runtime representation of a FUNCTION operand (a user        *)
(*          function, the built-ins printf json num, every method of every    *)
(*          receiver kind left un-called) in every operator x either side     *)
EXTENDS JqValue

S(str) == VStr(Chars(str))
\* ---- the operand universe (the harness renders a value as a literal, as a
\* variable assigned beforehand, or as a field of the input document)
Numbers == <<Zero, NegZero, I(1), I(-1), I(2), I(3), I(7), Num(1, 2, 0), Num(5, 2, 0), Num(-7, 2, 0),
             Num(1, 1, 53), Num(1, 1, -20), Num(1, 1, 70)>>
Strings == <<S(""), S("0"), S("5"), S("-3"), S("2.5"), S("1e2"), S("10"), S("9"), S(" 1"), S("1 "), S("abc"), S("5x"),
             VStr(<<"C3", "A9">>), S("inf"), S("-Infinity"), S("NaN")>>
Others == <<VBool(TRUE), VBool(FALSE), VNull, VUnset, VArr(0), VArr(1), VObj(0), VObj(1),
            VRegex(Chars("ab")), VRegex(Chars("x")), VFn>>
U == Numbers \o Strings \o Others
\* extra operands of ~ and !~ : the patterns as strings (both sides) and as regex literals (right side)
Patterns == <<Chars("a"), Chars("^5"), Chars("5$"), Chars("^$"), Chars("[0-9]"), Chars("a|x"), Chars("."),
              Chars("^-?[0-9]+$"), Chars("ab*c"), Chars("("), Chars("[a")>>
PatStrs == [i \in 1..Len(Patterns) |-> VStr(Patterns[i])]
PatRegexes == [i \in 1..Len(Patterns) |-> VRegex(Patterns[i])] \o <<VRegex(Chars("2.5")), VRegex(<<>>)>>
W == U \o PatStrs \o PatRegexes
NU == Len(U)
NLeft == NU + Len(PatStrs)
NW == Len(W)

\* after `is`: the nine type names, then identifiers that are NOT type names (internal tag
\* names, other languages' names, the documented names in another letter case)
IsNames == <<"number", "string", "bool", "array", "object", "regex", "function", "null", "unknown",
             "foo", "nil", "nativefunction", "nativefn", "Null", "NULL", "str", "int", "float", "boolean", "list", "dict",
             "undefined", "unset", "none", "any", "String", "ARRAY", "Number", "Bool", "Object", "Regex", "Unknown", "num", "obj", "arr", "fn">>
IsOperands == U \o <<VNative>>

\* ---- composed expressions (family "nest"): the operands of the two-operator trees
CONSTANTS SpellMasks,       \* family "spell": the letter-case patterns (bit i set = letter i in upper case)
          Fams,             \* the vector families to enumerate
          NestN,            \* size of the reduced universe of the binary-in-binary trees
          SiteShift, SiteStride   \* the order in which a repeated site sees its operands (any shift; a stride coprime to every length)
UCAll == <<I(2), S("5"), S("abc"), VNull, VUnset, VBool(TRUE), Zero, VArr(1), Num(-7, 2, 0)>>
UC == SubSeq(UCAll, 1, NestN)
\* shapes: ub = unary(binary(l, r)), uu = unary(unary(l)), bl = binary(binary(l, r), c), br = binary(l, binary(r, c))
NestHeads == ({"ub"} \X UnOps \X BinOps) \cup ({"uu"} \X UnOps \X UnOps) \cup ({"bl", "br"} \X BinOps \X BinOps)
NestTree(h, i, j) ==
  CASE h[1] = "ub" -> UnNode(h[2], BinNode(h[3], Leaf(U[i], 1), Leaf(U[j], 2)))
    [] h[1] = "uu" -> UnNode(h[2], UnNode(h[3], Leaf(U[i], 1)))
    [] h[1] = "bl" -> BinNode(h[2], BinNode(h[3], Leaf(UC[i], 1), Leaf(UC[j[1]], 2)), Leaf(UC[j[2]], 3))
    [] h[1] = "br" -> BinNode(h[2], Leaf(UC[i], 1), BinNode(h[3], Leaf(UC[j[1]], 2), Leaf(UC[j[2]], 3)))

\* ---- repeated sites (family "site"): ONE source-level operator expression evaluated once per
\* element of a sequence of operands, in one run.  Each evaluation gives the result of its own
\* cell (an operator keeps nothing from one evaluation to the next, wherever the operand comes
\* from); the run ends at the first runtime error.  The variants say how the changing operand
\* reaches the site (the harness renders them):
\*   elem    for (x in [..]) over a literal array      docelem  the same over an array of the document
\*   val     for (k, x in {..}): the second variable    key      for (x in {..}): the keys (strings, sorted bytewise)
\*   char    for (x in "..."): the characters           idx      for (v, x in [..]): the index 0, 1, 2, 3
\*   param   a function parameter                       var      a variable assigned between evaluations
\*   member  a[i] inside a counting loop
SiteVariants == <<"elem", "docelem", "val", "key", "char", "idx", "param", "var", "member">>
SiteKinds(variant) ==
  CASE variant \in {"elem", "val", "member", "var"} -> {"num", "str", "bool", "null", "arr", "obj", "regex"}
    [] variant = "docelem" -> {"num", "str", "bool", "null", "arr", "obj"}
    [] variant \in {"key", "char"} -> {"str"}
    [] variant = "idx" -> {"num"}
    [] variant = "param" -> Kinds \ {"fn"}                  \* (a function is not passed as an argument here)
OneChar(s) == s # <<>> /\ Len(CharsOf(s)) = 1
SiteElig(variant) ==
  IF variant = "idx" THEN <<1, 3, 5, 6>>                            \* the indexes 0 1 2 3
  ELSE SelectSeq([i \in 1..NU |-> i], LAMBDA i : U[i].k \in SiteKinds(variant) /\ (variant = "char" => OneChar(U[i].s)))
\* the t-th element of a rotation with a stride: a permutation when the stride is coprime to the length
Permuted(seq) == [t \in 1..Len(seq) |-> seq[((SiteShift + t * SiteStride) % Len(seq)) + 1]]
RECURSIVE SortedByStr(_)
SortedByStr(ix) == IF ix = {} THEN <<>> ELSE LET m == CHOOSE i \in ix : \A j \in ix : StrCmp(U[i].s, U[j].s) <= 0 IN <<m>> \o SortedByStr(ix \ {m})
SeqRange(q) == {q[i] : i \in 1..Len(q)}
SiteOrder(variant, seq) ==
  CASE variant = "idx" -> seq
    [] variant = "key" -> SortedByStr(SeqRange(seq))
    [] OTHER -> Permuted(seq)
\* (constant tuples, so that TLC computes them once)
SiteEligs == <<SiteElig("elem"), SiteElig("docelem"), SiteElig("val"), SiteElig("key"), SiteElig("char"), SiteElig("idx"),
               SiteElig("param"), SiteElig("var"), SiteElig("member")>>
SiteOrders == <<SiteOrder("elem", SiteEligs[1]), SiteOrder("docelem", SiteEligs[2]), SiteOrder("val", SiteEligs[3]), SiteOrder("key", SiteEligs[4]),
                SiteOrder("char", SiteEligs[5]), SiteOrder("idx", SiteEligs[6]), SiteOrder("param", SiteEligs[7]), SiteOrder("var", SiteEligs[8]),
                SiteOrder("member", SiteEligs[9])>>
VariantNo(variant) == CHOOSE k \in 1..Len(SiteVariants) : SiteVariants[k] = variant
\* side 1: the changing operand on the left, 2: on the right, 3: on both sides (the same variable twice)
SiteCell(o, side, fixed, i) == CASE side = 1 -> BinOp(o, U[i], fixed) [] side = 2 -> BinOp(o, fixed, U[i]) [] side = 3 -> BinOp(o, U[i], U[i])
RECURSIVE SiteCellsFrom(_, _, _, _)
SiteCellsFrom(o, side, fixed, i) == IF i > NU THEN <<>> ELSE <<SiteCell(o, side, fixed, i)>> \o SiteCellsFrom(o, side, fixed, i + 1)
RECURSIVE USiteCellsFrom(_, _)
USiteCellsFrom(o, i) == IF i > NU THEN <<>> ELSE <<UnOp(o, U[i])>> \o USiteCellsFrom(o, i + 1)
SiteCells(o, side, fixed) == SiteCellsFrom(o, side, fixed, 1)                     \* (an explicit tuple: every cell is computed once)
CellFixed(res) == ~res.ok \/ res.v.k \notin {"unfixed", "okopen"}
\* the elements whose cell is a value, in run order, then (when there is one) ONE element whose cell is a runtime error.
\* Keys and indexes come in an order that is not ours to choose: there the run is the given order up to
\* the first runtime error (and nothing when a cell is not fixed by the statement).
RECURSIVE ThroughFirstErr(_, _)
ThroughFirstErr(cells, el) ==
  IF el = <<>> THEN <<>>
  ELSE IF ~cells[Head(el)].ok THEN <<Head(el)>>
  ELSE <<Head(el)>> \o ThroughFirstErr(cells, Tail(el))
FirstOf(q) == IF q = <<>> THEN <<>> ELSE <<q[1]>>
SiteSeqOf(cells, variant, el) ==
  IF variant \in {"key", "idx"} THEN
     (IF \E t \in 1..Len(el) : ~CellFixed(cells[el[t]]) THEN <<>> ELSE ThroughFirstErr(cells, el))
  ELSE SelectSeq(el, LAMBDA i : cells[i].ok /\ CellFixed(cells[i])) \o FirstOf(SelectSeq(el, LAMBDA i : ~cells[i].ok))
SiteSeq(cells, variant) == SiteSeqOf(cells, variant, SiteOrders[VariantNo(variant)])
RECURSIVE SiteRun(_, _)
SiteRun(cells, seq) ==
  IF seq = <<>> THEN [out |-> <<>>, err |-> FALSE]
  ELSE IF ~cells[Head(seq)].ok THEN [out |-> <<>>, err |-> TRUE]
  ELSE LET rest == SiteRun(cells, Tail(seq)) IN [out |-> <<cells[Head(seq)].v>> \o rest.out, err |-> rest.err]

\* ---- the non-finite numeric strings (family "spell").  A spelling is <<sign, word, mask>>: the word
\* in the letter case the mask says, after the sign; a near miss is a string one edit away from a spelling.
\* ("+nan" and "-nan" are spellings of this enumeration and are NOT numeric: NaN takes no sign.)
SpellWords == <<<<Chars("inf"), Chars("INF")>>, <<Chars("infinity"), Chars("INFINITY")>>, <<Chars("nan"), Chars("NAN")>>>>
SpellSigns == <<<<>>, <<"+">>, <<"-">>>>
Bit(m, i) == (m \div Pow(2, i - 1)) % 2 = 1
Cased(w, m) == [i \in 1..Len(w[1]) |-> IF Bit(m, i) THEN w[2][i] ELSE w[1][i]]
NearMisses == <<"in", "infi", "infin", "infinit", "infinityy", "infx", "inf1", "1inf", "na", "nann", "nan0", "i", "n", "nf", "an",
                " inf", "inf ", "in f", "++inf", "+-inf", "inf+", "infinity-", ".inf", "inf.", "infe1", "einf", "nane1", "inff", "innf", "nnan">>
SpellIds == {<<sg, w, m % Pow(2, Len(SpellWords[w][1]))>> : sg \in 1..3, w \in 1..3, m \in SpellMasks} \cup {<<0, i, 0>> : i \in 1..Len(NearMisses)}
SpellStr(id) == IF id[1] = 0 THEN Chars(NearMisses[id[2]]) ELSE SpellSigns[id[1]] \o Cased(SpellWords[id[2]], id[3])
\* the contexts: a binary operator with the spelling on one side and a partner on the other, a unary operator, ++ / --
SpellPartners == <<I(2), Zero, S("5"), VNull, VBool(TRUE), S("inf")>>
SpellCtxs == {<<"bin", o, side, p>> : o \in (ArithOps \cup CmpOps), side \in {1, 2}, p \in 1..Len(SpellPartners)}
             \cup {<<"un", o, 0, 0>> : o \in UnOps} \cup {<<"inc", o, pre, 0>> : o \in {"++", "--"}, pre \in {0, 1}}
\* an independent description of what a spelling denotes: by its lower-case form
SpellValue(s) ==
  CASE Lower(s) \in {Chars("inf"), Chars("+inf"), Chars("infinity"), Chars("+infinity")} -> PosInf
    [] Lower(s) \in {Chars("-inf"), Chars("-infinity")} -> NegInf
    [] Lower(s) = Chars("nan") -> NaN
    [] OTHER -> Zero

\* ---- computed operands (family "made").  A maker is an expression tree over leaves of the universe whose
\* value is a NUMBER produced by an operator (or, for the three anchors, the string spelling itself).  IEEE:
\* an exact result beyond the largest double is an infinity (the makers' operands are n * 2^e with |n| < 2^12,
\* so below 2^1024 every exact result here is a double).
Overflows(x) == x.k = "num" /\ x.n # 0 /\ x.d = 1 /\ (x.e >= 1024 \/ (x.e >= 1012 /\ Abs(x.n) * Pow(2, x.e - 1012) >= 4096))
RoundD(x) == IF Overflows(x) THEN Inf(x.n < 0) ELSE x
RECURSIVE MadeVal(_)
MadeVal(t) ==
  CASE t.t = "leaf" -> t.v
    [] t.t = "un" -> RoundD(UnOp(t.op, MadeVal(t.e)).v)
    [] t.t = "bin" -> RoundD(Arith(t.op, MadeVal(t.l), MadeVal(t.r)).v)
RECURSIVE NoOverflowIn(_)
NoOverflowIn(t) ==
  CASE t.t = "leaf" -> TRUE
    [] t.t = "un" -> NoOverflowIn(t.e)
    [] t.t = "bin" -> NoOverflowIn(t.l) /\ NoOverflowIn(t.r) /\ ~Overflows(Arith(t.op, MadeVal(t.l), MadeVal(t.r)).v)
Big == Num(1, 1, 1023)
Makers == <<
  Leaf(S("nan"), 1), Leaf(S("inf"), 1), Leaf(S("-inf"), 1),                       \* anchors: the spellings themselves (strings)
  UnNode("+", Leaf(S("nan"), 1)), UnNode("-", Leaf(S("NaN"), 1)),                 \* NaN by coercion
  BinNode("*", Leaf(S("nan"), 1), Leaf(I(1), 2)),
  BinNode("-", Leaf(S("inf"), 1), Leaf(S("inf"), 2)),                             \* NaN by arithmetic on infinities
  BinNode("*", Leaf(Zero, 1), Leaf(S("inf"), 2)),
  BinNode("/", Leaf(S("inf"), 1), Leaf(S("-inf"), 2)),
  BinNode("-", BinNode("*", Leaf(Big, 1), Leaf(I(4), 2)), BinNode("*", Leaf(Big, 3), Leaf(I(4), 4))),   \* ... on infinities that are overflows
  BinNode("*", Leaf(Zero, 1), BinNode("*", Leaf(Big, 2), Leaf(I(4), 3))),
  UnNode("+", Leaf(S("inf"), 1)), UnNode("-", Leaf(S("inf"), 1)), UnNode("+", Leaf(S("-Infinity"), 1)),   \* infinities by coercion
  BinNode("*", Leaf(S("-Infinity"), 1), Leaf(I(1), 2)),
  BinNode("-", Leaf(S("inf"), 1), Leaf(I(1), 2)),
  BinNode("*", Leaf(Big, 1), Leaf(I(4), 2)),                                      \* infinities by overflow
  BinNode("*", Leaf(Neg(Big), 1), Leaf(I(2), 2)),
  BinNode("+", Leaf(Big, 1), Leaf(Big, 2)),
  BinNode("/", Leaf(Big, 1), Leaf(Num(1, 1, -20), 2)),
  BinNode("-", Leaf(Neg(Big), 1), Leaf(Big, 2)),
  BinNode("*", Leaf(S("5"), 1), Leaf(I(1), 2)), UnNode("+", Leaf(S("abc"), 1)), UnNode("-", Leaf(S(""), 1)),   \* finite numbers by coercion
  BinNode("+", Leaf(VBool(TRUE), 1), Leaf(I(1), 2)), BinNode("-", Leaf(VNull, 1), Leaf(I(1), 2))>>
NMakers == Len(Makers)
MadeVals == [i \in 1..NMakers |-> MadeVal(Makers[i])]
MadePartners == <<I(2), Zero, NegZero, I(-1), S("5"), S("abc"), S(""), S("nan"), S("inf"), VNull, VUnset, VBool(TRUE), VBool(FALSE),
                  VArr(1), VObj(0), VRegex(Chars("ab")), VFn>>
MadeIsNames == <<"number", "string", "bool", "array", "object", "regex", "function", "null", "unknown", "foo">>
MadeCtxs == {<<"bin", o, side, p>> : o \in BinOps, side \in {1, 2}, p \in 1..Len(MadePartners)}
            \cup {<<"un", o, 0, 0>> : o \in UnOps} \cup {<<"inc", o, pre, 0>> : o \in {"++", "--"}, pre \in {0, 1}}
            \cup {<<"is", "is", 0, i>> : i \in 1..Len(MadeIsNames)}
            \cup {<<"pair", o, 0, m2>> : o \in (ArithOps \cup CmpOps \cup LogicOps), m2 \in 1..NMakers}
\* the comparisons the statement leaves open (NaN in row 7) are still ONE three-way result c per pair of numeric
\* readings (3.4: every operator is derived from c): the harness groups the observed booleans by this class
CmpClass(o, l, r, res) == IF o \in CmpOps /\ res = OkOpen THEN <<NumOf(l), NumOf(r)>> ELSE <<>>
\* the same number, supplied as a string
Spelled(v) == IF v.k \in {"num", "inf", "nan"} THEN VStr(NumText(v)) ELSE v
IsNumber(v) == v.k \in {"num", "inf", "nan"}

\* ---- function operands (family "fnval"): every runtime representation of a function.  The operators see a
\* function (truthy, num 0, string form empty) whichever it is; only `is` tells them apart (3.6, not enumerated here).
FnReps == <<"user", "printf", "json", "num", "arr.length", "arr.push", "arr.pop", "arr.popfirst", "arr.contains", "arr.sort",
            "obj.length", "obj.pluck", "str.length", "str.split", "str.lower", "str.upper", "num.floor", "num.ceil", "num.round">>
VFnRep(i) == [k |-> "fn", rep |-> FnReps[i]]
FnPartners == <<I(2), Zero, I(-1), S(""), S("0"), S("abc"), VBool(TRUE), VBool(FALSE), VNull, VUnset, VArr(0), VObj(1), VRegex(Chars("ab")), VFn>>
FnCtxs == {<<"bin", o, side, p>> : o \in BinOps, side \in {1, 2}, p \in 1..Len(FnPartners)}
          \cup {<<"un", o, 0, 0>> : o \in UnOps}
          \cup {<<"pair", o, 0, f2>> : o \in (ArithOps \cup CmpOps \cup LogicOps), f2 \in 1..Len(FnReps)}

\* ---- enumeration: Init picks family, operator and left operand, Next the right one
VARIABLES fam, op, li, ri, done
vars == <<fam, op, li, ri, done>>
Init ==
  /\ done = FALSE /\ ri = 0
  /\ \/ fam = "bin" /\ op \in (ArithOps \cup CmpOps \cup LogicOps) /\ li \in 1..NU
     \/ fam = "match" /\ op \in MatchOps /\ li \in 1..NLeft
     \/ fam = "un" /\ op \in UnOps /\ li \in 1..NU
     \/ fam = "inc" /\ op \in {"++", "--"} /\ li \in 1..NU
     \/ fam = "is" /\ op = "is" /\ li \in 1..Len(IsOperands)
     \/ fam = "nest" /\ op \in NestHeads /\ li \in 1..(IF op[1] \in {"ub", "uu"} THEN NU ELSE NestN)
     \/ fam = "site" /\ op \in BinOps /\ li \in 1..NU
     \/ fam = "usite" /\ op \in UnOps /\ li = 1
     \/ fam = "spell" /\ op = "spell" /\ li \in SpellIds
     \/ fam = "made" /\ op = "made" /\ li \in 1..NMakers
     \/ fam = "fnval" /\ op = "fnval" /\ li \in 1..Len(FnReps)
  /\ fam \in Fams
Next ==
  /\ ~done /\ done' = TRUE /\ UNCHANGED <<fam, op, li>>
  /\ CASE fam = "bin" -> ri' \in 1..NU
       [] fam = "match" -> ri' \in 1..NW
       [] fam = "un" -> ri' = 0
       [] fam = "inc" -> ri' \in {0, 1}                          \* 1 = prefix
       [] fam = "is" -> ri' \in 1..Len(IsNames)
       [] fam = "nest" -> ri' \in (CASE op[1] = "ub" -> 1..NU [] op[1] = "uu" -> {0} [] OTHER -> (1..NestN) \X (1..NestN))
       [] fam = "site" -> ri' \in (IF li = 1 THEN {1, 2, 3} ELSE {1, 2})                                \* the side
       [] fam = "usite" -> ri' = 0
       [] fam = "spell" -> ri' \in SpellCtxs
       [] fam = "made" -> ri' \in MadeCtxs
       [] fam = "fnval" -> ri' \in FnCtxs

\* ---- deviations (open findings): the cells a known defect explains
\* F6 zero-dividend: `0 / 5` and `0 % 5` are refused as divide by zero
ZeroDividend(o, l, r) ==
  \/ o = "/" /\ IsZero(NumOf(l)) /\ ~IsZero(NumOf(r))
  \/ o = "%" /\ IsZero(Trunc(NumOf(l))) /\ ~IsZero(Trunc(NumOf(r)))
\* same-operand-match: `x ~ x` with both operands the same variable answers true without looking at the pattern
SameOperand(o, l, r) == o \in MatchOps /\ l = r /\ r.k \in {"str", "regex"}
\* mod-int-overflow: % converts its operands to 64-bit integers; beyond 2^63 the result is platform-defined
ModOverflow(o, l, r) == o = "%" /\ (Beyond63(Trunc(NumOf(l))) \/ Beyond63(Trunc(NumOf(r))))
AnyOutcome == [ok |-> TRUE, v |-> [k |-> "any"]]
Devs(o, l, r) ==
  (IF ZeroDividend(o, l, r) THEN <<[name |-> "zero-dividend", mode |-> "", res |-> Err]>> ELSE <<>>) \o
  (IF ModOverflow(o, l, r) THEN <<[name |-> "mod-int-overflow", mode |-> "", res |-> AnyOutcome]>> ELSE <<>>) \o
  (IF SameOperand(o, l, r) /\ Match(o, l, r) # Ok(VBool(o = "~"))
     THEN <<[name |-> "same-operand-match", mode |-> "same", res |-> Ok(VBool(o = "~"))]>> ELSE <<>>)

\* ---- vectors
Vec == done =>
  CASE fam \in {"bin", "match"} ->
         LET l == W[li]  r == W[ri]  res == BinOp(op, l, r) IN
         Emit([fam |-> fam, op |-> op, li |-> li, ri |-> ri, l |-> l, r |-> r, res |-> res,
               evalr |-> EvalsRight(op, l), devs |-> Devs(op, l, r)])
    [] fam = "un" ->
         Emit([fam |-> fam, op |-> op, li |-> li, l |-> U[li], res |-> UnOp(op, U[li])])
    [] fam = "inc" ->
         LET x == IncDec(op, ri = 1, U[li]) IN
         Emit([fam |-> fam, op |-> op, li |-> li, l |-> U[li], prefix |-> (ri = 1), res |-> Ok(x.value), stored |-> x.stored])
    [] fam = "is" ->
         Emit([fam |-> fam, op |-> op, li |-> li, l |-> IsOperands[li], name |-> IsNames[ri], res |-> IsOp(IsOperands[li], IsNames[ri])])
    [] fam = "nest" ->
         LET t == NestTree(op, li, ri)  x == EvalTree(t) IN
         Emit([fam |-> fam, shape |-> op[1], tree |-> t, res |-> IF x.ok THEN Ok(x.v) ELSE Err, marks |-> x.m])
    [] fam = "site" ->
         \* cells: the result of every operand of the universe at this site; per variant the run: the operands
         \* (indexes into the universe) in the order of evaluation, the run's output being cells[seq[1]], cells[seq[2]], ...
         \* (nout values, then a runtime error when err)
         LET cells == SiteCells(op, ri, U[li]) IN
         Emit([fam |-> fam, op |-> op, side |-> ri, li |-> li, l |-> U[li], cells |-> cells,
               runs |-> [k \in 1..Len(SiteVariants) |->
                          LET seq == SiteSeq(cells, SiteVariants[k])  run == SiteRun(cells, seq)
                          IN [variant |-> SiteVariants[k], seq |-> seq, nout |-> Len(run.out), err |-> run.err]]])
    [] fam = "usite" ->
         LET cells == USiteCellsFrom(op, 1) IN
         Emit([fam |-> fam, op |-> op, side |-> 0, cells |-> cells,
               runs |-> [k \in 1..Len(SiteVariants) |->
                          LET seq == SiteOrders[k]
                          IN [variant |-> SiteVariants[k], seq |-> seq, nout |-> Len(seq), err |-> FALSE]]])
    [] fam = "spell" ->
         LET sv == VStr(SpellStr(li)) IN
         (CASE ri[1] = "bin" ->
                LET p == SpellPartners[ri[4]]  l == IF ri[3] = 1 THEN sv ELSE p  r == IF ri[3] = 1 THEN p ELSE sv IN
                Emit([fam |-> fam, ctx |-> "bin", op |-> ri[2], side |-> ri[3], l |-> l, r |-> r, res |-> BinOp(ri[2], l, r),
                      evalr |-> EvalsRight(ri[2], l), num |-> NumOf(sv), devs |-> <<>>])
           [] ri[1] = "un" ->
                Emit([fam |-> fam, ctx |-> "un", op |-> ri[2], l |-> sv, res |-> UnOp(ri[2], sv), num |-> NumOf(sv)])
           [] ri[1] = "inc" ->
                LET x == IncDec(ri[2], ri[3] = 1, sv) IN
                Emit([fam |-> fam, ctx |-> "inc", op |-> ri[2], l |-> sv, prefix |-> (ri[3] = 1), res |-> Ok(x.value), stored |-> x.stored, num |-> NumOf(sv)]))
    [] fam = "made" ->
         LET mv == MadeVals[li] IN
         (CASE ri[1] = "bin" ->
                LET p == MadePartners[ri[4]]  l == IF ri[3] = 1 THEN mv ELSE p  r == IF ri[3] = 1 THEN p ELSE mv  res == BinOp(ri[2], l, r) IN
                Emit([fam |-> fam, ctx |-> "bin", op |-> ri[2], side |-> ri[3], li |-> li, mk |-> Makers[li], l |-> l, r |-> r, res |-> res,
                      evalr |-> EvalsRight(ri[2], l), cls |-> CmpClass(ri[2], l, r, res)])
           [] ri[1] = "pair" ->
                LET r == MadeVals[ri[4]]  res == BinOp(ri[2], mv, r) IN
                Emit([fam |-> fam, ctx |-> "pair", op |-> ri[2], side |-> 0, li |-> li, ri |-> ri[4], mk |-> Makers[li], mk2 |-> Makers[ri[4]], l |-> mv, r |-> r, res |-> res,
                      evalr |-> EvalsRight(ri[2], mv), cls |-> CmpClass(ri[2], mv, r, res)])
           [] ri[1] = "un" ->
                Emit([fam |-> fam, ctx |-> "un", op |-> ri[2], li |-> li, mk |-> Makers[li], l |-> mv, res |-> UnOp(ri[2], mv)])
           [] ri[1] = "inc" ->
                LET x == IncDec(ri[2], ri[3] = 1, mv) IN
                Emit([fam |-> fam, ctx |-> "inc", op |-> ri[2], li |-> li, mk |-> Makers[li], l |-> mv, prefix |-> (ri[3] = 1), res |-> Ok(x.value), stored |-> x.stored])
           [] ri[1] = "is" ->
                Emit([fam |-> fam, ctx |-> "is", op |-> "is", li |-> li, mk |-> Makers[li], l |-> mv, name |-> MadeIsNames[ri[4]], res |-> IsOp(mv, MadeIsNames[ri[4]])]))
    [] fam = "fnval" ->
         LET fv == VFnRep(li) IN
         (CASE ri[1] = "bin" ->
                LET p == FnPartners[ri[4]]  l == IF ri[3] = 1 THEN fv ELSE p  r == IF ri[3] = 1 THEN p ELSE fv IN
                Emit([fam |-> fam, ctx |-> "bin", op |-> ri[2], side |-> ri[3], li |-> li, l |-> l, r |-> r, res |-> BinOp(ri[2], l, r), evalr |-> EvalsRight(ri[2], l)])
           [] ri[1] = "pair" ->
                Emit([fam |-> fam, ctx |-> "pair", op |-> ri[2], side |-> 0, li |-> li, ri |-> ri[4], l |-> fv, r |-> VFnRep(ri[4]),
                      res |-> BinOp(ri[2], fv, VFnRep(ri[4])), evalr |-> EvalsRight(ri[2], fv)])
           [] ri[1] = "un" ->
                Emit([fam |-> fam, ctx |-> "un", op |-> ri[2], li |-> li, l |-> fv, res |-> UnOp(ri[2], fv)]))

\* ======================================================================
\* Laws (spec-level; checked by TLC in every enumerated state)
\* ======================================================================
B(res) == res.v.b                      \* the boolean of an Ok(bool) result
IsBool(res) == res.ok /\ res.v.k = "bool"
Plain(v) == v.k \notin {"unset", "arr", "obj"}

\* --- an independent, kind-by-kind description of "num(v) = 0" and "|num(v)| < 1"
NumericStringValues ==
  {<<Chars("0"), Zero>>, <<Chars("5"), I(5)>>, <<Chars("-3"), I(-3)>>, <<Chars("2.5"), Num(5, 2, 0)>>,
   <<Chars("1e2"), I(100)>>, <<Chars("10"), I(10)>>, <<Chars("9"), I(9)>>,
   <<Chars("inf"), PosInf>>, <<Chars("-Infinity"), NegInf>>, <<Chars("NaN"), NaN>>}
NumericStrings == {p[1] : p \in NumericStringValues}
\* the non-finite spellings, by their lower-case form
NanOperand(v) == v.k = "str" /\ Lower(v.s) = Chars("nan")
InfOperand(v) == v.k = "str" /\ Lower(v.s) \in {Chars("inf"), Chars("+inf"), Chars("-inf"), Chars("infinity"), Chars("+infinity"), Chars("-infinity")}
ZeroLike(v) ==
  CASE v.k = "num" -> v.n = 0
    [] v.k = "bool" -> ~v.b
    [] v.k = "str" -> v.s \notin (NumericStrings \ {Chars("0")}) /\ ~NanOperand(v) /\ ~InfOperand(v)
    [] OTHER -> TRUE
\* the universe's fractions are dyadic: n * 2^e with e < 0
TruncZeroLike(v) == ZeroLike(v) \/ (v.k = "num" /\ v.d = 1 /\ v.e < 0 /\ Abs(v.n) < Pow(2, IF -v.e > 20 THEN 20 ELSE -v.e))
\* --- an independent, kind-by-kind description of the cells whose VALUE the statement leaves open
NumericCmp(l, r) == {l.k, r.k} \cap {"null", "unset", "arr", "obj"} = {} /\ ~(l.k = "str" /\ r.k = "str")       \* row 7 of 3.4
ValueOpen(o, l, r) ==
  \/ o \in CmpOps /\ NumericCmp(l, r) /\ (NanOperand(l) \/ NanOperand(r))
  \/ o = "%" /\ ~TruncZeroLike(r) /\ (NanOperand(l) \/ InfOperand(l) \/ NanOperand(r))
ErrExpected(o, l, r) ==
  \/ o = "/" /\ ZeroLike(r)
  \/ o = "%" /\ TruncZeroLike(r)
  \/ o \in CmpOps /\ "unset" \notin {l.k, r.k} /\ "null" \notin {l.k, r.k} /\ {l.k, r.k} \cap {"arr", "obj"} # {}
  \/ o \in MatchOps /\ (r.k \notin {"str", "regex"} \/ r.s \in InvalidPatterns)

\* errors exactly on the marked cells; results have the kind the tables promise
CellLawOn(o, l, r, res) ==
  /\ res.ok = ~ErrExpected(o, l, r)
  /\ res.ok /\ res.v.k \notin {"unfixed", "okopen"} =>
       /\ o \in (CmpOps \cup LogicOps \cup MatchOps) => res.v.k = "bool"
       /\ o \in {"-", "*", "/", "%"} => res.v.k \in {"num", "sum", "inf", "nan"}
       /\ o \in {"-", "*", "/", "%"} /\ res.v.k \in {"inf", "nan"} => (\E v \in {l, r} : NanOperand(v) \/ InfOperand(v))   \* (no overflow in the model)
       /\ o = "+" => (res.v.k = "str") = ("str" \in {l.k, r.k})
       /\ o = "+" /\ res.v.k = "str" => Len(res.v.s) = Len(StrOf(l)) + Len(StrOf(r))
  /\ (res.ok /\ res.v.k = "unfixed") = ~CmpFixed(o, l, r)
  /\ (res.ok /\ res.v.k = "okopen") = (CmpFixed(o, l, r) /\ ~ErrExpected(o, l, r) /\ ValueOpen(o, l, r))
  /\ res.ok => res.v.k # "undefined"

CellLaw(o, l, r) == CellLawOn(o, l, r, BinOp(o, l, r))

\* the numbers that occur as num() of an operand, in increasing order (hand-written)
NumOrder == <<NegInf, Num(-7, 2, 0), I(-3), I(-1), Zero, Num(1, 1, -20), Num(1, 2, 0), I(1), I(2), Num(5, 2, 0), I(3),
              I(5), I(7), I(9), I(10), I(100), Num(1, 1, 53), Num(1, 1, 70), PosInf>>
RankOf(x) == CHOOSE i \in 1..Len(NumOrder) : NumEq(NumOrder[i], x)
NumOrderLaw ==
  /\ \A i, j \in 1..Len(NumOrder) : NumCmp(NumOrder[i], NumOrder[j]) = (IF i < j THEN -1 ELSE IF i > j THEN 1 ELSE 0)
  /\ NumCmp(Zero, NegZero) = 0 /\ NumCmp(NegZero, Zero) = 0

SubLaw(d, e) == d.k = "num" => NumEq(d, Neg(e))                       \* l - r = -(r - l)
DivLaw(l, r, q) == q.ok /\ IsFin(NumOf(l)) /\ IsFin(NumOf(r)) => NumEq(Mul(q.v, NumOf(r)), NumOf(l))          \* (l / r) * r = l, exactly
RemLaw(a, b, m) == Abs(m) < Abs(b) /\ (m = 0 \/ (m < 0) = (a < 0)) /\ (a - m) % Abs(b) = 0
ModLaw(tl, tr, res) == res.ok /\ res.v.k = "num" /\ IsFin(tl) /\ IsFin(tr) /\ Small(tl) /\ Small(tr) => RemLaw(IntOf(tl), IntOf(tr), IntOf(res.v))
MatchLaw(m1, m2) == m1.ok = m2.ok /\ (m1.ok => B(m1) = ~B(m2))

\* 3.4 / 3.5 and arithmetic identities on one ordered pair
\* the arithmetic of an infinite operand x = num(l) with a finite one y = num(r) (IEEE), operator by operator
InfLaws(l, r, x, y) ==
  x.k = "inf" /\ y.k = "num" =>
    /\ Arith("-", l, r) = Ok(x) /\ Arith("-", r, l) = Ok(Neg(x))
    /\ "str" \notin {l.k, r.k} => Arith("+", l, r) = Ok(x) /\ Arith("+", r, l) = Ok(x)
    /\ Arith("*", l, r) = Ok(IF y.n = 0 THEN NaN ELSE Inf(x.neg # IsNeg(y)))
    /\ Arith("/", l, r) = (IF y.n = 0 THEN Err ELSE Ok(Inf(x.neg # IsNeg(y))))
    /\ Arith("/", r, l).ok /\ IsZero(Arith("/", r, l).v) /\ IsNeg(Arith("/", r, l).v) = (x.neg # IsNeg(y))     \* never "divide by zero"
    /\ Arith("%", r, l).ok /\ NumEq(Arith("%", r, l).v, Trunc(y))                                               \* never "divide by zero"
    /\ Arith("%", l, r) = (IF IsZero(Trunc(y)) THEN Err ELSE OkOpen)
    /\ NumericCmp(l, r) =>
         /\ Compare("<", l, r) = Ok(VBool(x.neg)) /\ Compare(">", l, r) = Ok(VBool(~x.neg))
         /\ Compare("<", r, l) = Ok(VBool(~x.neg)) /\ Compare(">", r, l) = Ok(VBool(x.neg))
         /\ Compare("==", l, r) = Ok(VBool(FALSE)) /\ Compare("!=", r, l) = Ok(VBool(TRUE))
\* NaN: contagious in + - * /, no runtime error anywhere except a zero divisor on the right, comparisons are open
NanLaws(l, r, x, y) ==
  x.k = "nan" =>
    /\ \A o \in {"-", "*"} : Arith(o, l, r) = Ok(NaN) /\ Arith(o, r, l) = Ok(NaN)
    /\ "str" \notin {l.k, r.k} => Arith("+", l, r) = Ok(NaN) /\ Arith("+", r, l) = Ok(NaN)
    /\ Arith("/", r, l) = Ok(NaN) /\ Arith("%", r, l) = OkOpen
    /\ Arith("/", l, r) = (IF IsZero(y) THEN Err ELSE Ok(NaN))
    /\ NumericCmp(l, r) => \A o \in CmpOps : Compare(o, l, r) = OkOpen /\ Compare(o, r, l) = OkOpen
Ordered(l, r) == ~(NumericCmp(l, r) /\ (NanOperand(l) \/ NanOperand(r)))
PairLawsOn(l, r, lt, gt, eq, ne, le, ge) ==
  \* the comparison of the finite fragment is the comparison, away from the non-finite spellings
  /\ "unset" \notin {l.k, r.k} /\ (\A v \in {l, r} : ~NanOperand(v) /\ ~InfOperand(v)) => Cmp(l, r) = CmpX(l, r)
  /\ InfLaws(l, r, NumOf(l), NumOf(r)) /\ NanLaws(l, r, NumOf(l), NumOf(r))
  \* comparison laws for operands that are neither unset nor containers (and, where numbers are compared, not NaN)
  /\ Plain(l) /\ Plain(r) /\ Ordered(l, r) =>
       /\ \A x \in {lt, gt, eq, ne, le, ge} : IsBool(x)
       /\ B(lt) = B(Compare(">", r, l))
       /\ B(eq) = ~B(ne)
       /\ B(le) = (B(lt) \/ B(eq))
       /\ B(ge) = B(Compare("<=", r, l))
       /\ Cardinality({x \in {"lt", "eq", "gt"} : CASE x = "lt" -> B(lt) [] x = "eq" -> B(eq) [] x = "gt" -> B(gt)}) = 1
       /\ B(eq) = B(Compare("==", r, l))
  \* null is below everything that is set, equal only to null, and never an error (even against containers)
  /\ l.k = "null" /\ r.k # "unset" =>
       /\ IsBool(lt) /\ IsBool(eq) /\ IsBool(Compare(">", r, l))
       /\ B(lt) = (r.k # "null") /\ B(eq) = (r.k = "null") /\ B(Compare(">", r, l)) = (r.k # "null")
       /\ ~B(Compare("<", r, l))
  \* unset: < and > are true, == is false, whatever the other side is
  /\ "unset" \in {l.k, r.k} => lt = Ok(VBool(TRUE)) /\ gt = Ok(VBool(TRUE)) /\ eq = Ok(VBool(FALSE))
  \* strings against strings is bytewise, everything else goes through num()
  /\ Plain(l) /\ Plain(r) /\ "null" \notin {l.k, r.k} /\ Ordered(l, r) =>
       B(lt) = (IF l.k = "str" /\ r.k = "str" THEN StrCmp(l.s, r.s) < 0 ELSE RankOf(NumOf(l)) < RankOf(NumOf(r)))
  \* logic: booleans, De Morgan, short circuit
  /\ Logic("&&", l, r) = Ok(VBool(Truthy(l) /\ Truthy(r)))
  /\ Logic("||", l, r) = Ok(VBool(Truthy(l) \/ Truthy(r)))
  /\ B(UnOp("!", Logic("&&", l, r).v)) = B(Logic("||", UnOp("!", l).v, UnOp("!", r).v))
  /\ ~EvalsRight("&&", l) => Logic("&&", l, r) = Ok(VBool(FALSE))
  /\ ~EvalsRight("||", l) => Logic("||", l, r) = Ok(VBool(TRUE))
  /\ EvalsRight("&&", l) # EvalsRight("||", l)
  \* arithmetic identities (exact, so they hold without rounding); ignoring the sign of zero
  /\ "str" \notin {l.k, r.k} => Arith("+", l, r) = Arith("+", r, l)
  /\ Arith("*", l, r) = Arith("*", r, l)
  /\ SubLaw(Arith("-", l, r).v, Arith("-", r, l).v)
  /\ DivLaw(l, r, Arith("/", l, r))
  /\ ModLaw(Trunc(NumOf(l)), Trunc(NumOf(r)), Arith("%", l, r))
  \* ~ and !~ are each other's negation and fail together
  /\ MatchLaw(Match("~", l, r), Match("!~", l, r))

PairLaws(l, r) ==
  PairLawsOn(l, r, Compare("<", l, r), Compare(">", l, r), Compare("==", l, r), Compare("!=", l, r), Compare("<=", l, r), Compare(">=", l, r))

\* laws of one value
NumSame(x, y) == NumEq(x, y) \/ (x.k = "nan" /\ y.k = "nan")
ValueLaws(v) ==
  /\ B(UnOp("!", UnOp("!", v).v)) = Truthy(v)
  /\ Neg(UnOp("-", v).v) = NumOf(v)
  /\ UnOp("+", v).v = NumOf(v)
  /\ NumSame(UnOp("-", v).v, Sub(Zero, NumOf(v)))
  /\ NumSame(Arith("+", v, Zero).v, NumOf(v)) \/ v.k = "str"
  /\ NumSame(Arith("*", v, I(1)).v, NumOf(v))
  /\ Truthy(NumOf(v)) = ~IsZero(NumOf(v))
  /\ Cardinality({nm \in TypeNames : B(IsOp(v, nm))}) = 1
  /\ \A i \in 1..Len(IsNames) : IsNames[i] \notin TypeNames => IsOp(v, IsNames[i]) = Ok(VBool(FALSE))
  /\ \A i \in 1..Len(IsNames) : IsOp(VNative, IsNames[i]) = (IF i <= 9 THEN Unfixed ELSE Ok(VBool(FALSE)))
  /\ {IsNames[i] : i \in 1..9} = TypeNames /\ Cardinality({IsNames[i] : i \in 1..Len(IsNames)}) = Len(IsNames)
  /\ v.k \in Kinds
  /\ IncDec("++", TRUE, v).value = IncDec("++", FALSE, v).stored
  /\ IncDec("++", FALSE, v).value = NumOf(v)
  /\ LET u == IncDec("++", TRUE, v).value IN u.k = "num" => NumEq(Sub(u, I(1)), NumOf(v))
  /\ LET u == IncDec("--", TRUE, v).value IN u.k = "num" => NumEq(Add(u, I(1)), NumOf(v))
  \* the numeric value of a string, against the hand-written list
  /\ v.k = "str" => NumOf(v) = (IF v.s \in NumericStrings THEN (CHOOSE p \in NumericStringValues : p[1] = v.s)[2] ELSE Zero)
  \* printing a number and reading it back (short texts; longer ones overflow the model's parser)
  /\ v.k = "num" /\ Len(NumText(v)) <= 8 => ParseNum(NumText(v)) = [ok |-> TRUE, v |-> v]
  \* every pattern that is used has a meaning; a pattern without metacharacters finds itself
  /\ v.k \in {"str", "regex"} => PatDefined(v.s)
  /\ v.k \in {"str", "regex"} /\ MetaFree(v.s) => PatMatch(v.s, v.s)
  /\ PatMatch(<<>>, StrOf(v))
  /\ PatMatch(Chars("^$"), StrOf(v)) = (StrOf(v) = <<>>)

\* the operands stay inside what the 32-bit arithmetic of the model supports
UniverseOK == \A i \in 1..NW : W[i].k = "num" => Abs(W[i].n) < 64 /\ W[i].d < 64

\* ---- composed expressions
Opposite(o) == CASE o = "==" -> "!=" [] o = "!=" -> "==" [] o = "<" -> ">=" [] o = ">=" -> "<" [] o = ">" -> "<=" [] o = "<=" -> ">"
                 [] o = "~" -> "!~" [] o = "!~" -> "~"
Fixed(x) == x.ok /\ x.v.k \notin {"unfixed", "okopen"}
Res(x) == IF x.ok THEN Ok(x.v) ELSE Err
\* unary(binary(l, r))
NestUB(u, b, l, r, x) ==                                       \* x the result of the tree, inner the cell below the unary operator
  LET inner == BinOp(b, l, r) IN
  /\ x.ok = inner.ok                                                              \* a unary operator neither raises nor hides an error
  /\ x.m = (IF EvalsRight(b, l) THEN <<1, 2>> ELSE <<1>>)
  /\ Fixed(x) => (IF u = "!" THEN x.v.k = "bool" ELSE x.v.k \in {"num", "inf", "nan"})
  \* a negated comparison is the opposite comparison for operands that are set ...
  /\ u = "!" /\ b \in CmpOps /\ inner.ok /\ "unset" \notin {l.k, r.k} /\ inner.v.k # "okopen" => Res(x) = BinOp(Opposite(b), l, r)
  /\ inner.ok /\ inner.v.k = "okopen" => Res(x) = Unfixed
  \* ... and NOT when one is unset: == is false and so is != ; < and > are true
  /\ u = "!" /\ b \in {"==", "<", ">"} /\ "unset" \in {l.k, r.k} => Res(x) = Ok(VBool(b = "=="))
  /\ u = "!" /\ b \in MatchOps /\ inner.ok => Res(x) = BinOp(Opposite(b), l, r)
  /\ u = "!" /\ b = "&&" => Res(x) = Logic("||", UnOp("!", l).v, UnOp("!", r).v)
  /\ u = "!" /\ b = "||" => Res(x) = Logic("&&", UnOp("!", l).v, UnOp("!", r).v)
  /\ u = "-" /\ b = "-" /\ Fixed(x) /\ Fixed(Arith("-", r, l)) /\ Arith("-", r, l).v.k = "num" => NumEq(x.v, Arith("-", r, l).v)      \* -(l - r) = r - l
  /\ u = "+" /\ Fixed(x) /\ inner.v.k = "num" => x.v = inner.v
  /\ u = "+" /\ b \in (CmpOps \cup LogicOps \cup MatchOps) /\ Fixed(x) => x.v = (IF B(inner) THEN I(1) ELSE Zero)
NestUU(u1, u2, v, x) ==
  /\ x.ok /\ x.m = <<1>>
  /\ u1 = "!" /\ u2 = "!" => x.v = VBool(Truthy(v))
  /\ u1 = "!" /\ u2 \in {"-", "+"} => x.v = VBool(IsZero(NumOf(v)))
  /\ u1 = u2 /\ u1 \in {"-", "+"} => x.v = NumOf(v)
  /\ {u1, u2} = {"-", "+"} => x.v = Neg(NumOf(v))
  /\ u1 = "+" /\ u2 = "!" => x.v = (IF Truthy(v) THEN Zero ELSE I(1))
  /\ u1 = "-" /\ u2 = "!" => x.v = (IF Truthy(v) THEN NegZero ELSE I(-1))
\* binary(binary(l, r), c) and binary(l, binary(r, c)) over the same three operands
NestBB(o2, o1, l, r, c, xl, xr) ==
  LET innerL == BinOp(o1, l, r)  innerR == BinOp(o1, r, c) IN
  \* errors: the left operand comes first; a right operand that is skipped cannot fail
  /\ ~innerL.ok => ~xl.ok /\ xl.m = (IF EvalsRight(o1, l) THEN <<1, 2>> ELSE <<1>>)
  /\ ~innerR.ok => xr.ok = ~EvalsRight(o2, l)
  /\ xr.m = <<1>> \o (IF EvalsRight(o2, l) THEN (IF EvalsRight(o1, r) THEN <<2, 3>> ELSE <<2>>) ELSE <<>>)
  /\ innerL.ok /\ innerL.v.k # "unfixed" /\ OperandOK(o2, [t |-> "bin"], innerL.v, c) =>
        xl.m = (IF EvalsRight(o1, l) THEN <<1, 2>> ELSE <<1>>) \o (IF EvalsRight(o2, innerL.v) THEN <<3>> ELSE <<>>)
  \* exact arithmetic is associative; so is concatenation, and so are && and ||
  /\ o1 = o2 /\ o1 \in {"+", "*"} /\ "str" \notin {l.k, r.k, c.k} /\ Fixed(xl) /\ Fixed(xr) /\ xl.v.k = "num" /\ xr.v.k = "num" => NumEq(xl.v, xr.v)
  /\ o1 = o2 /\ o1 = "+" /\ {l.k, r.k, c.k} = {"str"} => xl.v = xr.v /\ xl.v = VStr(l.s \o r.s \o c.s)
  /\ o1 = o2 /\ o1 \in LogicOps => Res(xl) = Res(xr)
  /\ o1 = "&&" /\ o2 = "||" => Res(xl) = Ok(VBool((Truthy(l) /\ Truthy(r)) \/ Truthy(c)))
  /\ o1 = "||" /\ o2 = "&&" => Res(xr) = Ok(VBool(Truthy(l) /\ (Truthy(r) \/ Truthy(c))))
NestLaws ==
  CASE op[1] = "ub" -> NestUB(op[2], op[3], U[li], U[ri], EvalTree(NestTree(op, li, ri)))
    [] op[1] = "uu" -> NestUU(op[2], op[3], U[li], EvalTree(NestTree(op, li, ri)))
    [] op[1] = "bl" -> NestBB(op[2], op[3], UC[li], UC[ri[1]], UC[ri[2]], EvalTree(NestTree(op, li, ri)), EvalTree(NestTree(<<"br", op[2], op[3]>>, li, ri)))
    [] OTHER -> TRUE

\* ---- repeated sites: the run order is a rearrangement of the eligible operands whose cell is fixed, values first
SiteLawsOf(o, side, fixed, variant, cells) ==
  LET el == SiteEligs[VariantNo(variant)]  seq == SiteSeq(cells, variant)  run == SiteRun(cells, seq) IN
  /\ SeqRange(Permuted(el)) = SeqRange(el) /\ Cardinality(SeqRange(el)) = Len(el)          \* the stride is coprime to the length
  /\ variant = "key" => \A t \in 1..(Len(seq) - 1) : StrCmp(U[seq[t]].s, U[seq[t + 1]].s) < 0
  /\ Cardinality(SeqRange(seq)) = Len(seq) /\ SeqRange(seq) \subseteq SeqRange(el)
  /\ variant \notin {"key", "idx"} => \A i \in SeqRange(el) : cells[i].ok /\ CellFixed(cells[i]) => i \in SeqRange(seq)
  /\ variant \in {"key", "idx"} /\ seq # <<>> => seq = SubSeq(SiteOrders[VariantNo(variant)], 1, Len(seq)) /\ (run.err \/ Len(seq) = Len(el))
  /\ Len(run.out) = Len(seq) - (IF run.err THEN 1 ELSE 0)
  /\ \A t \in 1..Len(run.out) : Ok(run.out[t]) = cells[seq[t]]
  /\ variant = "char" => \A t \in 1..Len(run.out) : Ok(run.out[t]) = SiteCell(o, side, fixed, seq[t])     \* (the tuple of cells against the definition, on the short runs)
  /\ run.err => ~cells[seq[Len(seq)]].ok
  /\ Len(el) >= 4
SiteLawsAll(o, side, fixed, cells) == \A k \in 1..Len(SiteVariants) : SiteLawsOf(o, side, fixed, SiteVariants[k], cells)
SiteLaws(o, side, fixed) == SiteLawsAll(o, side, fixed, SiteCells(o, side, fixed))

\* ---- the non-finite spellings: what a spelling denotes (against the description by lower-case form); a string
\* that is not a spelling is 0 like any non-numeric string; the cell laws in every context; no context raises an
\* error because of the spelling (only a zero divisor does)
SpellLaws(sv, ctx) ==
  /\ NumOf(sv) = SpellValue(sv.s)
  /\ ParseNum(sv.s).ok = FALSE
  /\ Truthy(sv) /\ UnOp("!", sv) = Ok(VBool(FALSE))
  /\ ctx[1] = "bin" =>
       LET p == SpellPartners[ctx[4]]  l == IF ctx[3] = 1 THEN sv ELSE p  r == IF ctx[3] = 1 THEN p ELSE sv  res == BinOp(ctx[2], l, r) IN
       /\ CellLawOn(ctx[2], l, r, res)
       /\ res.ok = ~(ctx[2] \in {"/", "%"} /\ IsZero(Trunc(NumOf(r))))
       /\ InfLaws(l, r, NumOf(l), NumOf(r)) /\ NanLaws(l, r, NumOf(l), NumOf(r))
       \* a spelling that denotes nothing behaves like "abc"
       /\ SpellValue(sv.s) = Zero /\ ~(l.k = "str" /\ r.k = "str") /\ ctx[2] # "+" =>
             res = BinOp(ctx[2], IF ctx[3] = 1 THEN S("abc") ELSE p, IF ctx[3] = 1 THEN p ELSE S("abc"))
  /\ ctx[1] = "un" => UnOp(ctx[2], sv) = (CASE ctx[2] = "!" -> Ok(VBool(FALSE)) [] ctx[2] = "+" -> Ok(SpellValue(sv.s)) [] ctx[2] = "-" -> Ok(Neg(SpellValue(sv.s))))
  /\ ctx[1] = "inc" => LET x == IncDec(ctx[2], ctx[3] = 1, sv) IN
       /\ SpellValue(sv.s).k # "num" => x.value = SpellValue(sv.s) /\ x.stored = SpellValue(sv.s)                  \* inf + 1 = inf, NaN + 1 = NaN
       /\ SpellValue(sv.s).k = "num" => x.stored = I(IF ctx[2] = "++" THEN 1 ELSE -1)

\* ---- computed operands: what the makers make; a cell depends on the numeric reading of an operand only, not on
\* whether it is a number or the string that spells it (rows 7 of 3.4, 3.3), except where a STRING operand matters
\* (+ concatenates, two strings compare bytewise, ~ takes the text); errors exactly on a zero divisor / container
\* comparison / non-pattern
MadeErr(o, l, r) ==
  \/ o = "/" /\ IsZero(NumOf(r))
  \/ o = "%" /\ IsZero(Trunc(NumOf(r)))
  \/ o \in CmpOps /\ "unset" \notin {l.k, r.k} /\ "null" \notin {l.k, r.k} /\ {l.k, r.k} \cap {"arr", "obj"} # {}
  \/ o \in MatchOps /\ (r.k \notin {"str", "regex"} \/ r.s \in InvalidPatterns)
MadeCellLaws(o, l, r, res) ==
  /\ res.ok = ~MadeErr(o, l, r)
  /\ o \in {"-", "*", "/", "%"} => res = BinOp(o, Spelled(l), Spelled(r))
  /\ o \in CmpOps /\ IsNumber(l) /\ r.k # "str" => res = BinOp(o, Spelled(l), r)
  /\ o \in CmpOps /\ IsNumber(r) /\ l.k # "str" => res = BinOp(o, l, Spelled(r))
  /\ o = "+" /\ "str" \in {l.k, r.k} => res = Ok(VStr(StrOf(l) \o StrOf(r)))
  /\ o = "+" /\ IsNumber(l) /\ r.k = "str" => res = BinOp(o, Spelled(l), r)
  /\ o \in LogicOps => res = Ok(VBool(IF o = "&&" THEN Truthy(l) /\ Truthy(r) ELSE Truthy(l) \/ Truthy(r)))
  /\ o \in MatchOps /\ IsNumber(l) => res = BinOp(o, Spelled(l), r)
  /\ (o \in CmpOps /\ res = OkOpen) = (o \in CmpOps /\ "unset" \notin {l.k, r.k} /\ NanCmp(l, r))
  /\ CmpClass(o, l, r, res) # <<>> => \E v \in {l, r} : NumOf(v) = NaN
  \* an infinity is beyond every finite number and equal to itself
  /\ o \in CmpOps /\ IsNumber(l) /\ l.k = "inf" /\ IsNumber(r) /\ r.k # "nan" =>
       res = CompareBy(o, [ok |-> TRUE, c |-> IF r = l THEN 0 ELSE IF l.neg THEN -1 ELSE 1])
MadeLaws(mi, ctx) ==
  LET t == Makers[mi]  mv == MadeVals[mi] IN
  /\ (t.t = "leaf") = (mv.k = "str") /\ mv.k \in {"str", "num", "inf", "nan"}
  /\ NoOverflowIn(t) => EvalTree(t).ok /\ EvalTree(t).v = mv                 \* the evaluator of composed expressions agrees where nothing overflows
  /\ ~NoOverflowIn(t) => mv.k \in {"inf", "nan"}
  /\ IsNumber(mv) => NumOf(Spelled(mv)) = mv /\ Truthy(mv) = ~IsZero(mv)    \* the print form reads back as the same number
  /\ mv.k = "str" => NumOf(mv).k \in {"inf", "nan"}
  /\ ctx[1] = "bin" =>
       LET p == MadePartners[ctx[4]]  l == IF ctx[3] = 1 THEN mv ELSE p  r == IF ctx[3] = 1 THEN p ELSE mv
       IN MadeCellLaws(ctx[2], l, r, BinOp(ctx[2], l, r))
  /\ ctx[1] = "pair" => MadeCellLaws(ctx[2], mv, MadeVals[ctx[4]], BinOp(ctx[2], mv, MadeVals[ctx[4]]))
  /\ ctx[1] = "un" => UnOp(ctx[2], mv) = (IF ctx[2] = "!" THEN Ok(VBool(IF IsNumber(mv) THEN IsZero(mv) ELSE FALSE)) ELSE UnOp(ctx[2], Spelled(mv)))
  /\ ctx[1] = "inc" => IncDec(ctx[2], ctx[3] = 1, mv) = IncDec(ctx[2], ctx[3] = 1, Spelled(mv))
  /\ ctx[1] = "is" /\ IsNumber(mv) => IsOp(mv, MadeIsNames[ctx[4]]) = Ok(VBool(MadeIsNames[ctx[4]] = "number"))
\* every class of values the makers are meant to reach is reached, by a coercion and by an overflow
MakersCover ==
  /\ \A x \in {NaN, PosInf, NegInf} : \E i, j \in 1..NMakers : MadeVals[i] = x /\ MadeVals[j] = x /\ NoOverflowIn(Makers[i]) /\ ~NoOverflowIn(Makers[j])
  /\ \E i \in 1..NMakers : MadeVals[i] = NegZero
  /\ \A i \in 1..Len(MadePartners) : MadePartners[i].k \in Kinds
  /\ {MadePartners[i].k : i \in 1..Len(MadePartners)} = Kinds
  /\ Overflows(Num(1, 1, 1024)) /\ ~Overflows(Num(4095, 1, 1012)) /\ Overflows(Num(4097, 1, 1012)) /\ ~Overflows(Big) /\ Overflows(Num(3, 1, 1023))

\* ---- function operands: the result of every operator is that of the cell of a (user) function, whatever the
\* representation; a function is truthy, so ! gives false, && and || short-circuit accordingly
FnLaws(fi, ctx) ==
  LET fv == VFnRep(fi) IN
  /\ Truthy(fv) /\ NumOf(fv) = Zero /\ StrOf(fv) = <<>>
  /\ UnOp("!", fv) = Ok(VBool(FALSE)) /\ EvalsRight("&&", fv) /\ ~EvalsRight("||", fv)
  /\ ctx[1] = "bin" =>
       LET p == FnPartners[ctx[4]] IN
       /\ BinOp(ctx[2], IF ctx[3] = 1 THEN fv ELSE p, IF ctx[3] = 1 THEN p ELSE fv) = BinOp(ctx[2], IF ctx[3] = 1 THEN VFn ELSE p, IF ctx[3] = 1 THEN p ELSE VFn)
       /\ ctx[2] = "&&" => BinOp("&&", fv, p) = Ok(VBool(Truthy(p))) /\ (ctx[3] = 2 => BinOp("&&", p, fv) = Ok(VBool(Truthy(p))))
       /\ ctx[2] = "||" => BinOp("||", fv, p) = Ok(VBool(TRUE)) /\ BinOp("||", p, fv) = Ok(VBool(TRUE))
  /\ ctx[1] = "pair" => BinOp(ctx[2], fv, VFnRep(ctx[4])) = BinOp(ctx[2], VFn, VFn)
  /\ ctx[1] = "un" => UnOp(ctx[2], fv) = UnOp(ctx[2], VFn)
  /\ {FnPartners[i].k : i \in 1..Len(FnPartners)} = Kinds

Laws == done =>
  /\ fam = "nest" => NestLaws
  /\ fam = "site" => SiteLaws(op, ri, U[li])
  /\ fam \in {"bin", "match"} => CellLaw(op, W[li], W[ri])
  /\ fam = "bin" /\ op = "==" => PairLaws(U[li], U[ri])
  /\ fam = "match" /\ op = "~" => PairLaws(W[li], W[ri])
  /\ fam = "match" /\ op = "~" /\ li = 1 => ValueLaws(W[ri])            \* every value of W once
  /\ fam = "spell" => SpellLaws(VStr(SpellStr(li)), ri)
  /\ fam = "made" => MadeLaws(li, ri)
  /\ fam = "fnval" => FnLaws(li, ri)

\* bytewise order on strings is a total order (checked once, on all triples)
StrOrderLaw ==
  LET SS == {Strings[i].s : i \in 1..Len(Strings)} \cup {Patterns[i] : i \in 1..Len(Patterns)} IN
  /\ \A a, b \in SS : StrCmp(a, b) = -StrCmp(b, a) /\ (StrCmp(a, b) = 0) = (a = b)
  /\ \A a, b, c \in SS : StrCmp(a, b) < 0 /\ StrCmp(b, c) < 0 => StrCmp(a, c) < 0
  /\ StrCmp(Chars("10"), Chars("9")) < 0 /\ StrCmp(<<>>, Chars(" 1")) < 0 /\ StrCmp(Chars("x"), <<"C3", "A9">>) < 0
\* anchors quoted in DESIGN.md 3.4
Anchors ==
  /\ Compare("<", S("10"), S("9")) = Ok(VBool(TRUE)) /\ Compare("<", I(10), S("9")) = Ok(VBool(FALSE))
  /\ Compare("==", VBool(TRUE), I(1)) = Ok(VBool(TRUE)) /\ Compare("==", S("abc"), Zero) = Ok(VBool(TRUE))
  /\ Compare("==", S("5"), I(5)) = Ok(VBool(TRUE)) /\ Compare("<", VNull, I(-1)) = Ok(VBool(TRUE))
  /\ Compare("<", VNull, S("")) = Ok(VBool(TRUE)) /\ Compare("==", VNull, Zero) = Ok(VBool(FALSE))
  /\ Arith("/", Zero, I(5)) = Ok(Zero) /\ Arith("%", Zero, I(5)) = Ok(Zero)
  /\ Arith("%", I(-7), I(3)) = Ok(I(-1)) /\ Arith("%", Num(79, 10, 0), Num(29, 10, 0)) = Ok(I(1))
  /\ Arith("+", I(1), S("x")) = Ok(S("1x")) /\ Arith("+", Num(1, 4, 0), S("")) = Ok(S("0.25"))
  /\ NumText(Num(1, 1, 53)) = Chars("9007199254740992") /\ NumText(Num(1, 1, -20)) = Chars("0.00000095367431640625")
  /\ NumText(Num(-7, 2, 0)) = Chars("-3.5") /\ NumText(NegZero) = Chars("-0")
  /\ Rem(Num(1, 1, 53), I(3)) = I(2) /\ Rem(Num(1, 1, 53), I(7)) = I(4) /\ Rem(Num(1, 1, 70), I(7)) = I(2)
  /\ Rem(Num(1, 1, 70), Num(1, 1, 53)) = Zero /\ Rem(Num(1, 1, 53), Num(1, 1, 70)) = Num(1, 1, 53) /\ Rem(I(-7), I(2)) = I(-1)
  /\ Rem(Num(3, 1, 60), Num(1, 1, 58)) = Zero /\ Rem(Num(3, 1, 60), Num(5, 1, 58)) = Num(1, 1, 59)
  /\ Beyond63(Num(1, 1, 70)) /\ Beyond63(Num(1, 1, 63)) /\ ~Beyond63(Num(1, 1, 62)) /\ ~Beyond63(Num(63, 1, 57)) /\ Beyond63(Num(33, 1, 58))
ASSUME UniverseOK
ASSUME StrOrderLaw
ASSUME NumOrderLaw
ASSUME Anchors
ASSUME MakersCover
=============================================================================
