------------------------------ MODULE MC_Ops ------------------------------
(* C05: every operator x every ordered pair of operands from a universe    *)
(* that holds, for every kind, its boundary representatives.  One vector    *)
(* per cell of the tables of DESIGN.md section 3; the laws protect the      *)
(* transcription (JqValue) against mistakes.                                *)
EXTENDS JqValue

S(str) == VStr(Chars(str))
\* ---- the operand universe (the harness renders a value as a literal, as a
\* variable assigned beforehand, or as a field of the input document)
Numbers == <<Zero, NegZero, I(1), I(-1), I(2), I(3), I(7), Num(1, 2, 0), Num(5, 2, 0), Num(-7, 2, 0),
             Num(1, 1, 53), Num(1, 1, -20), Num(1, 1, 70)>>
Strings == <<S(""), S("0"), S("5"), S("-3"), S("2.5"), S("1e2"), S("10"), S("9"), S(" 1"), S("1 "), S("abc"), S("5x"),
             VStr(<<"C3", "A9">>)>>
Others == <<VBool(TRUE), VBool(FALSE), VNull, VUnset, VArr(0), VArr(1), VObj(0), VObj(1),
            VRegex(Chars("ab")), VRegex(Chars("x")), VFn>>
U == Numbers \o Strings \o Others
\* extra operands of ~ and !~ : the patterns as strings (both sides) and as regex literals (right side)
Patterns == <<Chars("a"), Chars("^5"), Chars("5$"), Chars("^$"), Chars("[0-9]"), Chars("a|x"), Chars("."),
              Chars("^-?[0-9]+$"), Chars("ab*c"), Chars("("), Chars("[a")>>
PatStrs == [i \in 1..Len(Patterns) |-> VStr(Patterns[i])]
PatRegexes == [i \in 1..Len(Patterns) |-> VRegex(Patterns[i])] \o <<VRegex(Chars("2.5")), VRegex(<<>>)>>
W == U \o PatStrs \o PatRegexes
NU == Len(U)
NLeft == NU + Len(PatStrs)
NW == Len(W)

\* after `is`: the nine type names, then identifiers that are NOT type names (internal tag
\* names, other languages' names, the documented names in another letter case)
IsNames == <<"number", "string", "bool", "array", "object", "regex", "function", "null", "unknown",
             "foo", "nil", "nativefunction", "nativefn", "Null", "NULL", "str", "int", "float", "boolean", "list", "dict",
             "undefined", "unset", "none", "any", "String", "ARRAY", "Number", "Bool", "Object", "Regex", "Unknown", "num", "obj", "arr", "fn">>
IsOperands == U \o <<VNative>>

\* ---- enumeration: Init picks family, operator and left operand, Next the right one
VARIABLES fam, op, li, ri, done
vars == <<fam, op, li, ri, done>>
Init ==
  /\ done = FALSE /\ ri = 0
  /\ \/ fam = "bin" /\ op \in (ArithOps \cup CmpOps \cup LogicOps) /\ li \in 1..NU
     \/ fam = "match" /\ op \in MatchOps /\ li \in 1..NLeft
     \/ fam = "un" /\ op \in UnOps /\ li \in 1..NU
     \/ fam = "inc" /\ op \in {"++", "--"} /\ li \in 1..NU
     \/ fam = "is" /\ op = "is" /\ li \in 1..Len(IsOperands)
Next ==
  /\ ~done /\ done' = TRUE /\ UNCHANGED <<fam, op, li>>
  /\ CASE fam = "bin" -> ri' \in 1..NU
       [] fam = "match" -> ri' \in 1..NW
       [] fam = "un" -> ri' = 0
       [] fam = "inc" -> ri' \in {0, 1}                          \* 1 = prefix
       [] fam = "is" -> ri' \in 1..Len(IsNames)

\* ---- deviations (open findings): the cells a known defect explains
\* F6 zero-dividend: `0 / 5` and `0 % 5` are refused as divide by zero
ZeroDividend(o, l, r) ==
  \/ o = "/" /\ IsZero(NumOf(l)) /\ ~IsZero(NumOf(r))
  \/ o = "%" /\ IsZero(Trunc(NumOf(l))) /\ ~IsZero(Trunc(NumOf(r)))
\* same-operand-match: `x ~ x` with both operands the same variable answers true without looking at the pattern
SameOperand(o, l, r) == o \in MatchOps /\ l = r /\ r.k \in {"str", "regex"}
\* mod-int-overflow: % converts its operands to 64-bit integers; beyond 2^63 the result is platform-defined
ModOverflow(o, l, r) == o = "%" /\ (Beyond63(Trunc(NumOf(l))) \/ Beyond63(Trunc(NumOf(r))))
AnyOutcome == [ok |-> TRUE, v |-> [k |-> "any"]]
Devs(o, l, r) ==
  (IF ZeroDividend(o, l, r) THEN <<[name |-> "zero-dividend", mode |-> "", res |-> Err]>> ELSE <<>>) \o
  (IF ModOverflow(o, l, r) THEN <<[name |-> "mod-int-overflow", mode |-> "", res |-> AnyOutcome]>> ELSE <<>>) \o
  (IF SameOperand(o, l, r) /\ Match(o, l, r) # Ok(VBool(o = "~"))
     THEN <<[name |-> "same-operand-match", mode |-> "same", res |-> Ok(VBool(o = "~"))]>> ELSE <<>>)

\* ---- vectors
Vec == done =>
  CASE fam \in {"bin", "match"} ->
         LET l == W[li]  r == W[ri]  res == BinOp(op, l, r) IN
         Emit([fam |-> fam, op |-> op, li |-> li, ri |-> ri, l |-> l, r |-> r, res |-> res,
               evalr |-> EvalsRight(op, l), devs |-> Devs(op, l, r)])
    [] fam = "un" ->
         Emit([fam |-> fam, op |-> op, li |-> li, l |-> U[li], res |-> UnOp(op, U[li])])
    [] fam = "inc" ->
         LET x == IncDec(op, ri = 1, U[li]) IN
         Emit([fam |-> fam, op |-> op, li |-> li, l |-> U[li], prefix |-> (ri = 1), res |-> Ok(x.value), stored |-> x.stored])
    [] fam = "is" ->
         Emit([fam |-> fam, op |-> op, li |-> li, l |-> IsOperands[li], name |-> IsNames[ri], res |-> IsOp(IsOperands[li], IsNames[ri])])

\* ======================================================================
\* Laws (spec-level; checked by TLC in every enumerated state)
\* ======================================================================
B(res) == res.v.b                      \* the boolean of an Ok(bool) result
IsBool(res) == res.ok /\ res.v.k = "bool"
Plain(v) == v.k \notin {"unset", "arr", "obj"}

\* --- an independent, kind-by-kind description of "num(v) = 0" and "|num(v)| < 1"
NumericStringValues ==
  {<<Chars("0"), Zero>>, <<Chars("5"), I(5)>>, <<Chars("-3"), I(-3)>>, <<Chars("2.5"), Num(5, 2, 0)>>,
   <<Chars("1e2"), I(100)>>, <<Chars("10"), I(10)>>, <<Chars("9"), I(9)>>}
NumericStrings == {p[1] : p \in NumericStringValues}
ZeroLike(v) ==
  CASE v.k = "num" -> v.n = 0
    [] v.k = "bool" -> ~v.b
    [] v.k = "str" -> v.s \notin (NumericStrings \ {Chars("0")})
    [] OTHER -> TRUE
\* the universe's fractions are dyadic: n * 2^e with e < 0
TruncZeroLike(v) == ZeroLike(v) \/ (v.k = "num" /\ v.d = 1 /\ v.e < 0 /\ Abs(v.n) < Pow(2, IF -v.e > 20 THEN 20 ELSE -v.e))
ErrExpected(o, l, r) ==
  \/ o = "/" /\ ZeroLike(r)
  \/ o = "%" /\ TruncZeroLike(r)
  \/ o \in CmpOps /\ "unset" \notin {l.k, r.k} /\ "null" \notin {l.k, r.k} /\ {l.k, r.k} \cap {"arr", "obj"} # {}
  \/ o \in MatchOps /\ (r.k \notin {"str", "regex"} \/ r.s \in InvalidPatterns)

\* errors exactly on the marked cells; results have the kind the tables promise
CellLawOn(o, l, r, res) ==
  /\ res.ok = ~ErrExpected(o, l, r)
  /\ res.ok /\ res.v.k # "unfixed" =>
       /\ o \in (CmpOps \cup LogicOps \cup MatchOps) => res.v.k = "bool"
       /\ o \in {"-", "*", "/", "%"} => res.v.k \in {"num", "sum"}
       /\ o = "+" => (res.v.k = "str") = ("str" \in {l.k, r.k})
       /\ o = "+" /\ res.v.k = "str" => Len(res.v.s) = Len(StrOf(l)) + Len(StrOf(r))
  /\ (res.ok /\ res.v.k = "unfixed") = ~CmpFixed(o, l, r)
  /\ res.ok => res.v.k # "undefined"

CellLaw(o, l, r) == CellLawOn(o, l, r, BinOp(o, l, r))

\* the numbers that occur as num() of an operand, in increasing order (hand-written)
NumOrder == <<Num(-7, 2, 0), I(-3), I(-1), Zero, Num(1, 1, -20), Num(1, 2, 0), I(1), I(2), Num(5, 2, 0), I(3),
              I(5), I(7), I(9), I(10), I(100), Num(1, 1, 53), Num(1, 1, 70)>>
RankOf(x) == CHOOSE i \in 1..Len(NumOrder) : NumEq(NumOrder[i], x)
NumOrderLaw ==
  /\ \A i, j \in 1..Len(NumOrder) : NumCmp(NumOrder[i], NumOrder[j]) = (IF i < j THEN -1 ELSE IF i > j THEN 1 ELSE 0)
  /\ NumCmp(Zero, NegZero) = 0 /\ NumCmp(NegZero, Zero) = 0

SubLaw(d, e) == d.k = "num" => NumEq(d, Neg(e))                       \* l - r = -(r - l)
DivLaw(l, r, q) == q.ok => NumEq(Mul(q.v, NumOf(r)), NumOf(l))          \* (l / r) * r = l, exactly
RemLaw(a, b, m) == Abs(m) < Abs(b) /\ (m = 0 \/ (m < 0) = (a < 0)) /\ (a - m) % Abs(b) = 0
ModLaw(tl, tr, res) == res.ok /\ res.v.k = "num" /\ Small(tl) /\ Small(tr) => RemLaw(IntOf(tl), IntOf(tr), IntOf(res.v))
MatchLaw(m1, m2) == m1.ok = m2.ok /\ (m1.ok => B(m1) = ~B(m2))

\* 3.4 / 3.5 and arithmetic identities on one ordered pair
PairLawsOn(l, r, lt, gt, eq, ne, le, ge) ==
  \* comparison laws for operands that are neither unset nor containers
  /\ Plain(l) /\ Plain(r) =>
       /\ \A x \in {lt, gt, eq, ne, le, ge} : IsBool(x)
       /\ B(lt) = B(Compare(">", r, l))
       /\ B(eq) = ~B(ne)
       /\ B(le) = (B(lt) \/ B(eq))
       /\ B(ge) = B(Compare("<=", r, l))
       /\ Cardinality({x \in {"lt", "eq", "gt"} : CASE x = "lt" -> B(lt) [] x = "eq" -> B(eq) [] x = "gt" -> B(gt)}) = 1
       /\ B(eq) = B(Compare("==", r, l))
  \* null is below everything that is set, equal only to null, and never an error (even against containers)
  /\ l.k = "null" /\ r.k # "unset" =>
       /\ IsBool(lt) /\ IsBool(eq) /\ IsBool(Compare(">", r, l))
       /\ B(lt) = (r.k # "null") /\ B(eq) = (r.k = "null") /\ B(Compare(">", r, l)) = (r.k # "null")
       /\ ~B(Compare("<", r, l))
  \* unset: < and > are true, == is false, whatever the other side is
  /\ "unset" \in {l.k, r.k} => lt = Ok(VBool(TRUE)) /\ gt = Ok(VBool(TRUE)) /\ eq = Ok(VBool(FALSE))
  \* strings against strings is bytewise, everything else goes through num()
  /\ Plain(l) /\ Plain(r) /\ "null" \notin {l.k, r.k} =>
       B(lt) = (IF l.k = "str" /\ r.k = "str" THEN StrCmp(l.s, r.s) < 0 ELSE RankOf(NumOf(l)) < RankOf(NumOf(r)))
  \* logic: booleans, De Morgan, short circuit
  /\ Logic("&&", l, r) = Ok(VBool(Truthy(l) /\ Truthy(r)))
  /\ Logic("||", l, r) = Ok(VBool(Truthy(l) \/ Truthy(r)))
  /\ B(UnOp("!", Logic("&&", l, r).v)) = B(Logic("||", UnOp("!", l).v, UnOp("!", r).v))
  /\ ~EvalsRight("&&", l) => Logic("&&", l, r) = Ok(VBool(FALSE))
  /\ ~EvalsRight("||", l) => Logic("||", l, r) = Ok(VBool(TRUE))
  /\ EvalsRight("&&", l) # EvalsRight("||", l)
  \* arithmetic identities (exact, so they hold without rounding); ignoring the sign of zero
  /\ "str" \notin {l.k, r.k} => Arith("+", l, r) = Arith("+", r, l)
  /\ Arith("*", l, r) = Arith("*", r, l)
  /\ SubLaw(Arith("-", l, r).v, Arith("-", r, l).v)
  /\ DivLaw(l, r, Arith("/", l, r))
  /\ ModLaw(Trunc(NumOf(l)), Trunc(NumOf(r)), Arith("%", l, r))
  \* ~ and !~ are each other's negation and fail together
  /\ MatchLaw(Match("~", l, r), Match("!~", l, r))

PairLaws(l, r) ==
  PairLawsOn(l, r, Compare("<", l, r), Compare(">", l, r), Compare("==", l, r), Compare("!=", l, r), Compare("<=", l, r), Compare(">=", l, r))

\* laws of one value
ValueLaws(v) ==
  /\ B(UnOp("!", UnOp("!", v).v)) = Truthy(v)
  /\ Neg(UnOp("-", v).v) = NumOf(v)
  /\ UnOp("+", v).v = NumOf(v)
  /\ NumEq(UnOp("-", v).v, Sub(Zero, NumOf(v)))
  /\ NumEq(Arith("+", v, Zero).v, NumOf(v)) \/ v.k = "str"
  /\ NumEq(Arith("*", v, I(1)).v, NumOf(v))
  /\ Cardinality({nm \in TypeNames : B(IsOp(v, nm))}) = 1
  /\ \A i \in 1..Len(IsNames) : IsNames[i] \notin TypeNames => IsOp(v, IsNames[i]) = Ok(VBool(FALSE))
  /\ \A i \in 1..Len(IsNames) : IsOp(VNative, IsNames[i]) = (IF i <= 9 THEN Unfixed ELSE Ok(VBool(FALSE)))
  /\ {IsNames[i] : i \in 1..9} = TypeNames /\ Cardinality({IsNames[i] : i \in 1..Len(IsNames)}) = Len(IsNames)
  /\ v.k \in Kinds
  /\ IncDec("++", TRUE, v).value = IncDec("++", FALSE, v).stored
  /\ IncDec("++", FALSE, v).value = NumOf(v)
  /\ LET u == IncDec("++", TRUE, v).value IN u.k = "num" => NumEq(Sub(u, I(1)), NumOf(v))
  /\ LET u == IncDec("--", TRUE, v).value IN u.k = "num" => NumEq(Add(u, I(1)), NumOf(v))
  \* the numeric value of a string, against the hand-written list
  /\ v.k = "str" => NumOf(v) = (IF v.s \in NumericStrings THEN (CHOOSE p \in NumericStringValues : p[1] = v.s)[2] ELSE Zero)
  \* printing a number and reading it back (short texts; longer ones overflow the model's parser)
  /\ v.k = "num" /\ Len(NumText(v)) <= 8 => ParseNum(NumText(v)) = [ok |-> TRUE, v |-> v]
  \* every pattern that is used has a meaning; a pattern without metacharacters finds itself
  /\ v.k \in {"str", "regex"} => PatDefined(v.s)
  /\ v.k \in {"str", "regex"} /\ MetaFree(v.s) => PatMatch(v.s, v.s)
  /\ PatMatch(<<>>, StrOf(v))
  /\ PatMatch(Chars("^$"), StrOf(v)) = (StrOf(v) = <<>>)

\* the operands stay inside what the 32-bit arithmetic of the model supports
UniverseOK == \A i \in 1..NW : W[i].k = "num" => Abs(W[i].n) < 64 /\ W[i].d < 64

Laws == done =>
  /\ fam \in {"bin", "match"} => CellLaw(op, W[li], W[ri])
  /\ fam = "bin" /\ op = "==" => PairLaws(U[li], U[ri])
  /\ fam = "match" /\ op = "~" => PairLaws(W[li], W[ri])
  /\ fam = "match" /\ op = "~" /\ li = 1 => ValueLaws(W[ri])            \* every value of W once

\* bytewise order on strings is a total order (checked once, on all triples)
StrOrderLaw ==
  LET SS == {Strings[i].s : i \in 1..Len(Strings)} \cup {Patterns[i] : i \in 1..Len(Patterns)} IN
  /\ \A a, b \in SS : StrCmp(a, b) = -StrCmp(b, a) /\ (StrCmp(a, b) = 0) = (a = b)
  /\ \A a, b, c \in SS : StrCmp(a, b) < 0 /\ StrCmp(b, c) < 0 => StrCmp(a, c) < 0
  /\ StrCmp(Chars("10"), Chars("9")) < 0 /\ StrCmp(<<>>, Chars(" 1")) < 0 /\ StrCmp(Chars("x"), <<"C3", "A9">>) < 0
\* anchors quoted in DESIGN.md 3.4
Anchors ==
  /\ Compare("<", S("10"), S("9")) = Ok(VBool(TRUE)) /\ Compare("<", I(10), S("9")) = Ok(VBool(FALSE))
  /\ Compare("==", VBool(TRUE), I(1)) = Ok(VBool(TRUE)) /\ Compare("==", S("abc"), Zero) = Ok(VBool(TRUE))
  /\ Compare("==", S("5"), I(5)) = Ok(VBool(TRUE)) /\ Compare("<", VNull, I(-1)) = Ok(VBool(TRUE))
  /\ Compare("<", VNull, S("")) = Ok(VBool(TRUE)) /\ Compare("==", VNull, Zero) = Ok(VBool(FALSE))
  /\ Arith("/", Zero, I(5)) = Ok(Zero) /\ Arith("%", Zero, I(5)) = Ok(Zero)
  /\ Arith("%", I(-7), I(3)) = Ok(I(-1)) /\ Arith("%", Num(79, 10, 0), Num(29, 10, 0)) = Ok(I(1))
  /\ Arith("+", I(1), S("x")) = Ok(S("1x")) /\ Arith("+", Num(1, 4, 0), S("")) = Ok(S("0.25"))
  /\ NumText(Num(1, 1, 53)) = Chars("9007199254740992") /\ NumText(Num(1, 1, -20)) = Chars("0.00000095367431640625")
  /\ NumText(Num(-7, 2, 0)) = Chars("-3.5") /\ NumText(NegZero) = Chars("-0")
  /\ Rem(Num(1, 1, 53), I(3)) = I(2) /\ Rem(Num(1, 1, 53), I(7)) = I(4) /\ Rem(Num(1, 1, 70), I(7)) = I(2)
  /\ Rem(Num(1, 1, 70), Num(1, 1, 53)) = Zero /\ Rem(Num(1, 1, 53), Num(1, 1, 70)) = Num(1, 1, 53) /\ Rem(I(-7), I(2)) = I(-1)
  /\ Rem(Num(3, 1, 60), Num(1, 1, 58)) = Zero /\ Rem(Num(3, 1, 60), Num(5, 1, 58)) = Num(1, 1, 59)
  /\ Beyond63(Num(1, 1, 70)) /\ Beyond63(Num(1, 1, 63)) /\ ~Beyond63(Num(1, 1, 62)) /\ ~Beyond63(Num(63, 1, 57)) /\ Beyond63(Num(33, 1, 58))
ASSUME UniverseOK
ASSUME StrOrderLaw
ASSUME NumOrderLaw
ASSUME Anchors
=============================================================================
