--------------------------- MODULE MC_StreamRun ---------------------------
(* C03: bounded universe for JqStreamRun - whole runs.                        *)
(*                                                                           *)
(* Three complete sub-products ("slices"; the large ones thinned by a seeded  *)
(* hash, Mod = 1 keeps all):                                                 *)
(*  1  every program shape (all 32 sets of rule kinds, among them the empty   *)
(*     and the BEGIN-only program) x every ending of an input (clean, cut     *)
(*     inside / before a value, I/O error at the start / after a value / at   *)
(*     the end / inside, stray text, stray closer, comma between values,      *)
(*     corrupted byte), one input or two (the faulty one first or second)     *)
(*  2  every selector list (plain paths, counting selectors, several          *)
(*     selectors) x streams of 1..3 array values in one or two inputs x       *)
(*     {clean, cut, I/O error} x program with / without state                 *)
(*  3  every kind of top-level value (null, false, 0, "", {}, [], 7, "s", true, *)
(*     an object, arrays) at every position of streams of 1..MaxV values, one *)
(*     or two inputs, with and without the identity selector                 *)
(* Each configuration is run through JqStreamRun's transition system; its     *)
(* invariants and the laws below are checked in every state; one vector       *)
(* (configuration + expected activations + outcome) per finished run.         *)
EXTENDS JqStreamRun

CONSTANTS
  Mod2, Mod3,   \* keep 1 of Mod2 configurations of slice 2, 1 of Mod3 of slice 3
  Salt,         \* seed-derived
  MaxV          \* values per input in slice 3

Q == "\""
L(s) == Leaf(Chars(s))
LStr == Leaf(<<Q, "s", Q>>)
A1 == Arr(<<Arr(<<L("1"), L("2")>>), Arr(<<L("3"), L("4")>>)>>)
A2 == Arr(<<Arr(<<L("5"), L("6")>>), Arr(<<L("7"), L("8")>>), Arr(<<L("9"), L("0")>>)>>)
A3 == Arr(<<Arr(<<L("null"), LStr>>), Arr(<<L("true"), Arr(<<L("6")>>)>>), Arr(<<>>)>>)
Obj == Leaf(Chars("{") \o <<Q, "a", Q>> \o Chars(":[1]}"))

\* universe "any" (slices 1 and 3) and universe "arr" (slice 2: every selector is defined on them)
AnyVals == <<L("null"), L("7"), LStr, L("true"), Arr(<<>>), Obj, Arr(<<L("null"), L("0")>>), A1,
             L("false"), L("0"), Leaf(<<Q, Q>>), L("{}")>>
NAny == Len(AnyVals)
ArrVals == <<A1, A2, A3>>
Universe(u) == IF u = "arr" THEN ArrVals ELSE AnyVals

SepOf(i) == IF i = 1 THEN <<" ">> ELSE <<NL>>

SelLists == <<
  <<>>, <<"id">>, <<"i0">>, <<"ctr">>, <<"ctr0">>, <<"i1", "ctr">>, <<"ctr", "ctr">>, <<"id", "ctr0">>
>>

Endings == <<"clean", "nonl", "cutlast", "cutfirst", "io0", "ioafter1", "ioend", "ioinlast",
             "stray", "close", "comma", "corrupt">>
NoFault == [kind |-> "none", at |-> 0]

\* a raw input: universe, indices of its values, separator, ending
ValsOf(rf) == [i \in 1..Len(rf.vi) |-> Universe(rf.u)[rf.vi[i]]]

\* which endings make sense for n values
EndingFits(e, n) ==
  CASE e \in {"cutlast", "cutfirst", "ioafter1", "ioinlast", "corrupt"} -> n >= 1
    [] e = "comma" -> n >= 2
    [] OTHER -> TRUE

TextAndFault(rf) ==
  LET vals == ValsOf(rf)
      n  == Len(vals)
      ts == [i \in 1..n |-> Text(vals[i])]
      T  == JoinWith(ts, SepOf(rf.sep))
      TN == T \o <<NL>>
      eN == Len(T)
      e1 == IF n = 0 THEN 0 ELSE Len(ts[1])
      sN == IF n = 0 THEN 0 ELSE eN - Len(ts[n]) + 1
      e  == rf.ending
  IN CASE e = "clean"    -> [text |-> TN, fault |-> NoFault]
       [] e = "nonl"     -> [text |-> T,  fault |-> NoFault]
       [] e = "cutlast"  -> [text |-> TN, fault |-> [kind |-> "eof", at |-> eN - 1]]
       [] e = "cutfirst" -> [text |-> TN, fault |-> [kind |-> "eof", at |-> 1]]
       [] e = "io0"      -> [text |-> TN, fault |-> [kind |-> "ioerr", at |-> 0]]
       [] e = "ioafter1" -> [text |-> TN, fault |-> [kind |-> "ioerr", at |-> e1 + 1]]
       [] e = "ioend"    -> [text |-> TN, fault |-> [kind |-> "ioerr", at |-> Len(TN)]]
       [] e = "ioinlast" -> [text |-> TN, fault |-> [kind |-> "ioerr", at |-> eN - 1]]
       [] e = "stray"    -> [text |-> T \o <<" ", "x", NL>>, fault |-> NoFault]
       [] e = "close"    -> [text |-> T \o <<" ", "]", NL>>, fault |-> NoFault]
       [] e = "comma"    -> [text |-> JoinWith(ts, <<",">>) \o <<NL>>, fault |-> NoFault]
       [] e = "corrupt"  -> [text |-> [TN EXCEPT ![sN] = "x"], fault |-> NoFault]

CookFile(rf) ==
  LET x == TextAndFault(rf)
      f == FileOf(x.text, x.fault, ValsOf(rf))
  IN [text |-> f.text, fault |-> f.fault, vals |-> f.vals, k |-> f.k, khi |-> f.khi, outcome |-> f.outcome,
      spans |-> f.spans, ending |-> rf.ending]

RawFile(u, vi, sep, e) == [u |-> u, vi |-> vi, sep |-> sep, ending |-> e]

\* ---- the slices
Shapes2 == {{"P"}, {"BF", "P", "EF"}, Kinds, {"EF"}}
Shapes3 == {Kinds, {"EF"}, {"P"}, {"B", "E"}}

IdxSeqs(n, lo, hi) == UNION {[1..k -> 1..n] : k \in lo..hi}

Files1 ==
  LET one == {<<RawFile("any", vi, 1, e)>> :
                vi \in {<<>>, <<2, 8>>, <<8, 1, 3>>}, e \in {Endings[i] : i \in 1..Len(Endings)}}
      badFirst == {<<RawFile("any", <<8, 2>>, 2, e), RawFile("any", <<4>>, 1, "clean")>> :
                     e \in {Endings[i] : i \in 1..Len(Endings)}}
      badSecond == {<<RawFile("any", <<8>>, 1, e0), RawFile("any", <<2, 8>>, 1, e)>> :
                     e0 \in {"clean", "nonl"}, e \in {Endings[i] : i \in 1..Len(Endings)}}
  IN one \cup badFirst \cup badSecond

Files2 ==
  LET one == {<<RawFile("arr", vi, sep, e)>> :
                vi \in IdxSeqs(3, 1, 3), sep \in 1..2, e \in {"clean", "cutlast", "ioafter1"}}
      two == {<<RawFile("arr", vi, 1, "clean"), RawFile("arr", wi, 2, e)>> :
                vi \in IdxSeqs(3, 1, 2), wi \in IdxSeqs(3, 1, 2), e \in {"clean", "cutlast"}}
  IN one \cup two

Files3 ==
  LET one == {<<RawFile("any", vi, sep, e)>> :
                vi \in IdxSeqs(NAny, 1, MaxV), sep \in 1..2, e \in {"clean", "nonl", "cutlast", "ioend"}}
      two == {<<RawFile("any", <<a>>, 1, e), RawFile("any", <<b>>, 2, "clean")>> :
                a \in 1..NAny, b \in 1..NAny, e \in {"clean", "cutlast"}}
  IN one \cup two

WellFormedRaw(files) == \A f \in 1..Len(files) : EndingFits(files[f].ending, Len(files[f].vi))

\* a number that depends on everything chosen (thinning of slices 2 and 3)
RECURSIVE SumSeq(_, _)
SumSeq(s, w) == IF s = <<>> THEN 0 ELSE Head(s) * w + SumSeq(Tail(s), w * 3 + 1)
HashFile(rf) == SumSeq(rf.vi, 7) + rf.sep * 5 + Len(rf.ending) * 11 + Len(rf.vi) * 13
RECURSIVE HashFiles(_)
HashFiles(files) == IF files = <<>> THEN 0 ELSE HashFile(Head(files)) + 31 * HashFiles(Tail(files))
Hash(raw) == Salt + HashFiles(raw.files) + raw.sl * 17 + Cardinality(raw.prog.shape) * 19
             + (IF raw.prog.ctr THEN 23 ELSE 0) + SumSeq([i \in 1..Len(raw.sels) |-> Len(raw.sels[i])], 29)

Keep(raw) ==
  CASE raw.sl = 1 -> TRUE
    [] raw.sl = 2 -> Hash(raw) % Mod2 = 0
    [] raw.sl = 3 -> (Len(raw.files) = 1 /\ Len(raw.files[1].vi) = 1) \/ Hash(raw) % Mod3 = 0

NoCfg == [slice |-> 0, prog |-> [shape |-> {}, ctr |-> FALSE], sels |-> <<>>, files |-> <<>>]

VARIABLES ph, pick
mcvars == <<cfg, rvars, ph, pick>>

\* Init picks the slice and the program (the small part), Setup the rest
Picks ==
  {[sl |-> 1, prog |-> [shape |-> sh, ctr |-> c]] : sh \in SUBSET Kinds, c \in BOOLEAN}
  \cup {[sl |-> 2, prog |-> [shape |-> sh, ctr |-> c]] : sh \in Shapes2, c \in BOOLEAN}
  \cup {[sl |-> 3, prog |-> [shape |-> sh, ctr |-> c]] : sh \in Shapes3, c \in BOOLEAN}

PickOK(p) ==
  CASE p.sl = 1 -> ~p.prog.ctr \/ p.prog.shape \in {Kinds, {"B"}, {"B", "E"}}
    [] p.sl = 2 -> TRUE
    [] p.sl = 3 -> p.prog.ctr = (p.prog.shape = Kinds)

Init ==
  /\ ph = "pick"
  /\ pick \in {p \in Picks : PickOK(p)}
  /\ cfg = NoCfg
  /\ RunStart

RawConfigs(p) ==
  CASE p.sl = 1 -> {[sl |-> 1, prog |-> p.prog, sels |-> <<>>, files |-> fs] : fs \in Files1}
    [] p.sl = 2 -> {[sl |-> 2, prog |-> p.prog, sels |-> SelLists[s], files |-> fs] : s \in 1..Len(SelLists), fs \in Files2}
    [] p.sl = 3 -> {[sl |-> 3, prog |-> p.prog, sels |-> sl, files |-> fs] : sl \in {<<>>, <<"id">>}, fs \in Files3}

Cook(raw) ==
  [slice |-> raw.sl, prog |-> raw.prog, sels |-> raw.sels,
   files |-> [f \in 1..Len(raw.files) |-> CookFile(raw.files[f])]]

Setup ==
  /\ ph = "pick" /\ ph' = "run"
  /\ \E raw \in RawConfigs(pick) :
       /\ WellFormedRaw(raw.files) /\ Keep(raw)
       /\ cfg' = Cook(raw)
       /\ \A f \in 1..Len(cfg'.files) : Det(cfg'.files[f])
  /\ UNCHANGED <<rvars, pick>>

Keep2 == UNCHANGED <<cfg, ph, pick>>
McBegin   == ph = "run" /\ RBegin /\ Keep2
McSelect  == ph = "run" /\ RSelect /\ Keep2
McRound   == ph = "run" /\ RRound /\ Keep2
McFileEnd == ph = "run" /\ RFileEnd /\ Keep2
McFault   == ph = "run" /\ RFault /\ Keep2
McEnd     == ph = "run" /\ REnd /\ Keep2

Next == Setup \/ McBegin \/ McSelect \/ McRound \/ McFileEnd \/ McFault \/ McEnd

Running == ph = "run"
Fresh == Running /\ RunStart

\* ---- laws
InvRunTypeOK        == Running => RunTypeOK
InvOneAfterAnother  == Running => OneAfterAnother
InvPrefixOut        == Running => PrefixOut
InvFinal            == Running => Final
InvRunFaultReported == Running => RunFaultReported
InvShapeFree        == Running => ShapeFree

\* the byte level and the value level agree on every input of the universe, and
\* each ending does what its name says
InvFileLaw ==
  Fresh => \A f \in 1..Len(cfg.files) :
    LET x == cfg.files[f] IN
    /\ FileLaw(x)
    /\ x.ending \in {"clean", "nonl"} => (x.outcome = "ok" /\ x.k = Len(x.vals))
    /\ x.ending \in {"io0", "ioafter1", "ioend", "ioinlast", "stray", "close", "comma", "corrupt"} => x.outcome = "json"
    /\ x.ending \in {"ioend", "stray", "close"} => x.k = Len(x.vals)
    /\ x.ending = "io0" => x.k = 0
    /\ x.ending \in {"comma", "ioafter1"} => x.k >= 1
    /\ x.ending \in {"cutlast", "corrupt", "ioinlast"} => x.k = Len(x.vals) - 1

\* a counting selector picks, in the ideal, what the plain path picks
InvSelLaw ==
  Fresh => \A f \in 1..Len(cfg.files) : \A i \in 1..Len(cfg.files[f].vals) :
    LET v == cfg.files[f].vals[i] IN
    (v.k = "arr" /\ Len(v.els) >= 2 /\ \A e \in 1..Len(v.els) : v.els[e].k = "arr") =>
       /\ Roots(<<"ctr">>, v) = Roots(<<"i0">>, v)
       /\ Roots(<<"ctr", "ctr">>, v) = Roots(<<"i0", "i0">>, v)

Terminates == (Running /\ ~ENABLED Next) => rph = "done"

\* ---- vectors
Vec ==
  (Running /\ rph = "done") =>
    Emit([slice |-> cfg.slice, shape |-> cfg.prog.shape, ctr |-> cfg.prog.ctr, sels |-> cfg.sels,
          files |-> [f \in 1..Len(cfg.files) |->
                       [text |-> cfg.files[f].text, fault |-> cfg.files[f].fault, ending |-> cfg.files[f].ending,
                        k |-> cfg.files[f].k, outcome |-> cfg.files[f].outcome]],
          toks |-> [i \in 1..Len(rout) |-> [r |-> rout[i].r, f |-> rout[i].f, c |-> rout[i].c, t |-> rout[i].t]],
          body |-> RunExpected(cfg).body,
          outcome |-> routcome, errfile |-> rerr])
=============================================================================
