----------------------------- MODULE MC_Stream -----------------------------
(* C03: bounded but complete universe for JqStream.                          *)
(*                                                                           *)
(* Streams: concatenations of 1..MaxVals value texts with a separator after   *)
(* each value (""/" "/newline between values, ""/newline at the end).         *)
(* Behaviours: every stream x { no fault, every truncation point, every       *)
(* I/O-error position, every single-byte substitution from SubstBytes } x     *)
(* EVERY chunking (ReadReturn(k) for every k), so the invariants of JqStream  *)
(* are checked for all partitions of the byte stream into reads.              *)
(* One vector per (stream, fault): the per-prefix bounds, the expected end,   *)
(* and the boundary-relevant chunkings to replay on the real code.            *)
EXTENDS JqStream

CONSTANTS
  MaxVals,      \* 1..3 values per stream
  Mod2, Mod3,   \* keep 1 of Mod2 two-value and 1 of Mod3 three-value compositions (1 = all)
  Salt,         \* seed-derived, selects which ones
  WithPairs     \* emit pairs of boundary cuts as well

Q == "\""
Values == <<
  Chars("[1,2]"),
  Chars("{") \o <<Q>> \o Chars("a") \o <<Q>> \o Chars(":[0]}"),
  Chars("12"),
  <<Q>> \o Chars("a]") \o <<Q>>,
  Chars("true"),
  Chars("[]"),
  Chars("-0.5e0"),
  Chars("null"),
  <<Q, "\\", Q, Q>>
>>
NV == Len(Values)
IsNum(v) == Values[v][1] \in Digit \cup {"-"}

Seps == <<<<>>, <<" ">>, <<NL>>>>        \* between values
Tails == <<<<>>, <<NL>>>>                \* after the last value

SubstBytes == {"]", "}", "x", " ", Q, "1", ","}

\* a composition: values vs[1..n], separators ss[1..n-1], tail t
LegalComp(vs, ss) ==
  \A i \in 1..(Len(vs) - 1) : (ss[i] = 1 /\ IsNum(vs[i])) => ~IsNum(vs[i + 1]) /\ Values[vs[i + 1]][1] \notin {"e", "E", "."}

Keep(vs, ss, t) ==
  LET n == Len(vs)
      h == Salt + t * 3 + (IF n >= 1 THEN vs[1] * 31 ELSE 0) + (IF n >= 2 THEN ss[1] * 17 + vs[2] * 13 ELSE 0)
             + (IF n >= 3 THEN ss[2] * 7 + vs[3] * 5 ELSE 0)
  IN CASE n <= 1 -> TRUE
       [] n = 2  -> h % Mod2 = 0
       [] OTHER  -> h % Mod3 = 0

Comps ==
  UNION {{[vs |-> vs, ss |-> ss, t |-> t] :
            vs \in [1..n -> 1..NV], ss \in [1..(n - 1) -> 1..3], t \in 1..2} : n \in 1..MaxVals}

RECURSIVE BuildFrom(_, _)
BuildFrom(c, i) ==
  IF i > Len(c.vs) THEN <<>>
  ELSE Values[c.vs[i]] \o (IF i < Len(c.vs) THEN Seps[c.ss[i]] ELSE Tails[c.t]) \o BuildFrom(c, i + 1)
Build(c) == BuildFrom(c, 1)

\* where the values lie, by construction
RECURSIVE SpansFrom(_, _, _)
SpansFrom(c, i, off) ==
  IF i > Len(c.vs) THEN <<>>
  ELSE LET l == Len(Values[c.vs[i]])
           g == IF i < Len(c.vs) THEN Len(Seps[c.ss[i]]) ELSE Len(Tails[c.t])
       IN <<[s |-> off + 1, e |-> off + l]>> \o SpansFrom(c, i + 1, off + l + g)

\* fixed texts that drive the scanner through the parts of the grammar the
\* value texts above do not reach (unicode and other escapes, all number forms,
\* a second key, inner whitespace, and malformed variants); they get every
\* fault and substitution as well
BS == "\\"
Extra == {
  <<Q, BS, "u", "0", "0", "e", "9", Q>>,
  <<Q, BS, "u", "0", "0", "g", "9", Q>>,
  <<Q, BS, "n", BS, "t", BS, "/", BS, "b", BS, "f", BS, "r", BS, BS, Q>>,
  <<Q, BS, "x", Q>>,
  Chars("1.5e+3 0.25E-1"),
  Chars("1.E 2"),
  Chars("01-"),
  Chars("1E5,"),
  Chars("{ ") \o <<Q, "a", Q>> \o Chars(" : 1 , ") \o <<Q, "b", Q>> \o Chars(" : [ ] }"),
  Chars("{") \o <<Q, "a", Q>> \o Chars(":{") \o <<Q, "b", Q>> \o Chars(":[true,false,null]}}"),
  Chars("[1 ,2 ] [1,]"),
  Chars("{") \o <<Q, "a", Q>> \o Chars(":1,}"),
  Chars("{") \o <<Q, "a", Q>> \o Chars(" 1}"),
  Chars("[1 2]"),
  Chars("tru e"),
  <<Q, "a", NL, Q>>,
  <<" ", TAB, CR, NL, "7", TAB>>
}
NoComp == [vs |-> <<>>, ss |-> <<>>, t |-> 0]

VARIABLES ph, comp
mcvars == <<vars, ph, comp>>

NoFault == [kind |-> "none", at |-> 0]

Init ==
  /\ ph = "pick"
  /\ \/ comp \in {c \in Comps : LegalComp(c.vs, c.ss) /\ Keep(c.vs, c.ss, c.t)} /\ stream = Build(comp)
     \/ comp = NoComp /\ stream \in Extra
  /\ fault = NoFault /\ scan = <<>>
  /\ StartState

Substitute(s, i, b) == [s EXCEPT ![i] = b]

\* choose the fault (or the corruption) of this behaviour
Setup ==
  /\ ph = "pick" /\ ph' = "run" /\ comp' = NoComp
  /\ \/ /\ fault' = NoFault /\ stream' = stream
     \/ \E p \in 0..(Len(stream) - 1) : fault' = [kind |-> "eof", at |-> p] /\ stream' = stream
     \/ \E p \in 0..Len(stream) : fault' = [kind |-> "ioerr", at |-> p] /\ stream' = stream
     \/ \E i \in 1..Len(stream) : \E b \in SubstBytes \ {stream[i]} :
           fault' = NoFault /\ stream' = Substitute(stream, i, b)
  /\ scan' = ScanAll(Readable(stream', fault'))
  /\ UNCHANGED svars

Keep3 == UNCHANGED <<params, ph, comp>>
McReadCall       == ph = "run" /\ ReadCall /\ Keep3
McReadReturn     == ph = "run" /\ (\E k \in 1..(Limit - delivered) : ReadReturn(k)) /\ Keep3
McReadEnd        == ph = "run" /\ ReadEnd /\ Keep3
McDecodeValue    == ph = "run" /\ DecodeValue /\ Keep3
McProcessValue   == ph = "run" /\ ProcessValue /\ Keep3
McStopJsonError  == ph = "run" /\ StopJsonError /\ Keep3
McStopEndOfInput == ph = "run" /\ StopEndOfInput /\ Keep3
McStopSwallow    == ph = "run" /\ StopSwallow /\ Keep3

\* = Setup \/ (ph = "run" /\ StreamNext /\ UNCHANGED <<ph, comp>>), one disjunct per action for the coverage report
Next ==
  \/ Setup
  \/ McReadCall \/ McReadReturn \/ McReadEnd \/ McDecodeValue \/ McProcessValue
  \/ McStopJsonError \/ McStopEndOfInput \/ McStopSwallow

Running == ph = "run"
Fresh == Running /\ StartState

\* ---- laws on the spec itself
\* round trip: the scanner finds exactly the values the stream was built from
BuildLaw ==
  (ph = "pick" /\ comp # NoComp) =>
    LET sc == ScanAll(stream) IN
    /\ sc.err = 0 /\ ~sc.open
    /\ [k \in 1..Len(sc.vals) |-> [s |-> sc.vals[k].s, e |-> sc.vals[k].e]] = SpansFrom(comp, 1, 0)
    /\ \A k \in 1..Len(sc.vals) : sc.vals[k].sd = ~IsNum(comp.vs[k])

ScanLaws == Fresh => PrefixLaw(stream) /\ PrefixClosed(stream)

InvTypeOK           == Running => TypeOK
InvIncremental      == Running => Incremental
InvNoSpeculation    == Running => NoSpeculation
InvChunkIndependent == Running => ChunkIndependent
InvFaultReported    == Running => FaultReported

\* every behaviour ends: a state without successor is a stopped run
Terminates == (Running /\ ~ENABLED Next) => outcome # "run"

\* ---- vectors
BoundaryPos(sc, lim) ==
  {p \in 1..(lim - 1) :
      \/ \E k \in 1..Len(sc.vals) : p \in {sc.vals[k].e - 1, sc.vals[k].e, sc.vals[k].e + 1}
      \/ sc.err # 0 /\ p \in {sc.err - 1, sc.err}}

CutSets(sc, lim) ==
  LET B == BoundaryPos(sc, lim) IN
  {{}} \cup {{b} : b \in B} \cup (IF WithPairs THEN {{a, b} : a \in B, b \in B} ELSE {})
       \cup {1..(lim - 1)}

Vec ==
  Fresh =>
    LET lim == Limit
        x == Expected(scan, stream, fault)
        sw == SwallowCounts(scan, stream, fault)
    IN Emit([stream |-> stream, fault |-> fault, lim |-> lim,
             vals |-> [k \in 1..Len(scan.vals) |-> <<scan.vals[k].s, scan.vals[k].e>>],
             err |-> scan.err, open |-> scan.open,
             exp |-> x,
             swallow |-> sw,
             must |-> [i \in 1..(lim + 1) |-> MustCount(scan, i - 1)],
             may |-> [i \in 1..(lim + 1) |-> MayCount(scan, i - 1, FALSE)],
             cutsets |-> CutSets(scan, lim)])
=============================================================================
