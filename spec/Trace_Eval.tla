--------------------------- MODULE Trace_Eval ---------------------------
(* Validates recorded executions of large generated programs against the    *)
(* JqEval machine (C07 binding B; also C08: every line carries the frame    *)
(* depth at which it was written).  evaltraces.ndjson: one record per run:  *)
(*   prog    the program (JqEval AST, with the recorded oracle in prog.orc) *)
(*   out     the observation entries reconstructed from the real stdout     *)
(*           and the Push/Pop hooks: << entry, depth >>                     *)
(*   outcome the real outcome class                                         *)
(* The recorded oracle removes all branching: TLC walks one path per run;   *)
(* at every step the machine's output must be a prefix of the recorded      *)
(* output (OutPrefix) and at the end equal to it (FinalMatch); all JqEval   *)
(* invariants are evaluated at every step as well.                          *)
EXTENDS JqEval
Traces == ndJsonDeserialize("evaltraces.ndjson")
VARIABLE ti
TInit == \E i \in 1..Len(Traces) : ti = i /\ InitFor(Traces[i].prog)
TNext == Next /\ UNCHANGED ti
OutPrefix == /\ Len(out) <= Len(Traces[ti].out)
             /\ \A j \in 1..Len(out) : out[j] = Traces[ti].out[j]
FinalMatch == (outcome # "running") => (Len(out) = Len(Traces[ti].out) /\ outcome = Traces[ti].outcome)
=============================================================================
