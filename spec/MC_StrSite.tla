---------------------------- MODULE MC_StrSite ----------------------------
(* C13: a string literal denotes exactly its characters WHEREVER IT IS       *)
(* WRITTEN.  MC_LexStr prints every literal; here every literal body (up to  *)
(* MaxLen bytes over the same alphabet -- beyond two bytes those that hold a *)
(* backslash --, either quote style, plus a backslash before every other    *)
(* byte) is written at every SITE of the grammar where an *)
(* expression may stand: under every kind of parent node of the syntax tree  *)
(* (print list, assignment, compound assignment, each side of a binary       *)
(* operator, a unary operator, the brackets of a subscript that is read,     *)
(* assigned, incremented, nested, applied to $, an array element, an object  *)
(* value, a call argument of a user function / a builtin / a method, a       *)
(* method receiver, a return value, a condition, the subject of for-in, the  *)
(* subject / a pattern / a result of match, the subject of ~).               *)
(* A site is a program template with holes for the literal; the program      *)
(* makes the denoted bytes observable, where it can by confronting them with *)
(* the same bytes from an INDEPENDENT source: a member of the input document *)
(* (the harness writes the document {"k": val, val: 5} from the value the    *)
(* model gives), a key enumerated by for-in, a variable.                     *)
(* Outcome: the prescribed stdout, or a runtime error when the body has a    *)
(* bad escape (every site evaluates its literal).                            *)
EXTENDS JqLex
CONSTANTS MaxLen,      \* bound on the literal body, alphabet 1 (escapes, quotes, blanks)
          Sites,       \* the sites to enumerate with alphabet 1 (a subset of AllSites)
          MaxLen2,     \* bound on the literal body, alphabet 2 (a literal is a BYTE string: escapes next to bytes >= 0x80 / control bytes)
          Sites2       \* the sites to enumerate with alphabet 2

\* Alphabet 2: the literal is written at every site that hands the denoted bytes on unchanged (the harness leaves out
\* the sites that count or split characters and the regex site; a site that reads the document is used when the
\* value can be written in a JSON document, i.e. is well-formed UTF-8).  Byte groups: a well-formed 2-, 3- and 4-byte
\* sequence, a lead byte without continuation, a stray continuation, a byte that never occurs in UTF-8, NUL, DEL --
\* before, after and around each escape.
Alphabet(a) == IF a = 1 THEN {"a", "\\", "n", "t", "z", "'", "\"", " ", NL}
               ELSE {"\\", "t", "n", "C3", "A9", "FF"}
Bound(a) == IF a = 1 THEN MaxLen ELSE MaxLen2
SitesOf(a) == IF a = 1 THEN Sites ELSE Sites2
PrintableStr == " !\"#$%&'()*+,-./0123456789:;<=>?@ABCDEFGHIJKLMNOPQRSTUVWXYZ[\\]^_`abcdefghijklmnopqrstuvwxyz{|}~"
OtherBytes == ({SubSeq(PrintableStr, i, i) : i \in 1..Len(PrintableStr)} \cup {TAB, CR}) \ Alphabet(1)
ByteGroups == {<<"C3", "A9">>, <<"E2", "82", "AC">>, <<"F0", "9F", "98", "80">>, <<"E9">>, <<"80">>, <<"FF">>, <<"00">>, <<"7F">>}
EscLetters == {"n", "t", "\\"}
Probes(a) == IF a = 1 THEN {<<"x", "\\", b, "y">> : b \in OtherBytes}
             ELSE UNION {{G \o <<"\\", e>>, <<"\\", e>> \o G, G \o <<"\\", e>> \o G} : G \in ByteGroups, e \in EscLetters}
Min2(n) == IF n < 2 THEN n ELSE 2

\* ---- templates: text, the literal (L), the regex source that matches exactly the value (RE)
T(str) == [t |-> "txt", s |-> Chars(str)]
L == [t |-> "lit"]
RE == [t |-> "re"]
Render(tpl, lit, re) ==
  FlattenSeq([i \in 1..Len(tpl) |-> CASE tpl[i].t = "txt" -> tpl[i].s [] tpl[i].t = "lit" -> lit [] tpl[i].t = "re" -> re])

AllSites == {"print", "printlist", "assign", "addassign", "concatl", "concatr", "eqdoc", "neqdoc", "not", "cond", "whilecond",
             "arg", "ret", "elem", "objval", "recv", "recvsplit", "methodarg", "printfarg", "printffmt", "forin",
             "subset", "subget", "subgetdoc", "subsetget", "subnested", "subincr", "subaddassign", "subdocassign", "subdelete",
             "matchsubj", "matchpat", "matcharr", "matchres", "tildesubj", "grouped", "andor",
             \* a string literal as the KEY of an object literal is a string literal like any other
             "objkey", "objkeyget", "objkeyin", "objkeytwo"}
\* the sites that read the input document
DocSites == {"eqdoc", "neqdoc", "subgetdoc", "subdocassign", "matchpat", "matcharr"}

Tpl(site) ==
  CASE site = "print" -> <<T("BEGIN { print "), L, T(" }")>>
    [] site = "printlist" -> <<T("BEGIN { print 1, "), L, T(", 2 }")>>
    [] site = "assign" -> <<T("BEGIN { x = "), L, T("; print x }")>>
    [] site = "addassign" -> <<T("BEGIN { x = \"\"; x += "), L, T("; print x }")>>
    [] site = "concatl" -> <<T("BEGIN { print "), L, T(" + \"|\" }")>>
    [] site = "concatr" -> <<T("BEGIN { print \"|\" + "), L, T(" }")>>
    [] site = "eqdoc" -> <<T("{ print $.k == "), L, T(", "), L, T(" == $.k, "), L, T(" <= $.k, $.k >= "), L, T(" }")>>
    [] site = "neqdoc" -> <<T("{ print $.k != "), L, T(", "), L, T(" < $.k, $.k > "), L, T(" }")>>
    [] site = "not" -> <<T("BEGIN { print !"), L, T(" }")>>
    [] site = "cond" -> <<T("BEGIN { if ("), L, T(") print \"y\"; else print \"n\" }")>>
    [] site = "whilecond" -> <<T("BEGIN { n = 0; while ("), L, T(" && n < 2) n++; print n }")>>
    [] site = "arg" -> <<T("function f(s) { print s } BEGIN { f("), L, T(") }")>>
    [] site = "ret" -> <<T("function f() { return "), L, T(" } BEGIN { print f() }")>>
    [] site = "elem" -> <<T("BEGIN { a = [1, "), L, T("]; print a[1] }")>>
    [] site = "objval" -> <<T("BEGIN { o = {k: "), L, T("}; print o.k }")>>
    [] site = "objkey" -> <<T("BEGIN { o = {"), L, T(": 1}; for (k in o) print k }")>>
    [] site = "objkeyget" -> <<T("BEGIN { o = {"), L, T(": 7}; print o["), L, T("] }")>>
    [] site = "objkeyin" -> <<T("BEGIN { o = {a: {"), L, T(": 3}}; for (k, v in o.a) print k + \"|\" + v }")>>
    [] site = "objkeytwo" -> <<T("BEGIN { o = {"), L, T(": 1, "), L, T(": 2}; n = 0; for (k, v in o) { n++; print k + \"|\" + v } print n }")>>
    [] site = "recv" -> <<T("BEGIN { print "), L, T(".length() }")>>
    [] site = "recvsplit" -> <<T("BEGIN { print "), L, T(".split(\"|\")[0] }")>>
    [] site = "methodarg" -> <<T("BEGIN { x = "), L, T("; print (\"p\" + x + \"q\").split("), L, T(").length() }")>>
    [] site = "printfarg" -> <<T("BEGIN { printf(\"%s|\", "), L, T(") }")>>
    [] site = "printffmt" -> <<T("BEGIN { printf("), L, T(") }")>>
    [] site = "forin" -> <<T("BEGIN { for (c in "), L, T(") print c }")>>
    [] site = "subset" -> <<T("BEGIN { o = {}; o["), L, T("] = 1; for (k in o) print k }")>>
    [] site = "subget" -> <<T("BEGIN { o = {}; k = "), L, T("; o[k] = 7; print o["), L, T("] }")>>
    [] site = "subgetdoc" -> <<T("{ print $["), L, T("] }")>>
    [] site = "subsetget" -> <<T("BEGIN { o = {}; o["), L, T("] = 7; k = "), L, T("; print o[k] }")>>
    [] site = "subnested" -> <<T("BEGIN { o = {}; o["), L, T("]["), L, T("] = 3; for (k in o) for (j in o[k]) print k + \"|\" + j }")>>
    [] site = "subincr" -> <<T("BEGIN { o = {}; o["), L, T("]++; ++o["), L, T("]; for (k, v in o) print k + \"|\" + v }")>>
    [] site = "subaddassign" -> <<T("BEGIN { o = {}; o["), L, T("] += 2; for (k, v in o) print k + \"|\" + v }")>>
    [] site = "subdocassign" -> <<T("{ $["), L, T("] = 6; n = 0; for (k, v in $) { n++; if (k != \"k\") print v } print n }")>>
    [] site = "subdelete" -> <<T("BEGIN { o = {}; k = "), L, T("; o[k] = {}; o["), L, T("].m = 4; print o[k].m }")>>
    [] site = "matchsubj" -> <<T("BEGIN { x = "), L, T("; print match ("), L, T(") { x => \"bound\" } }")>>
    [] site = "matchpat" -> <<T("{ print match ($.k) { "), L, T(" => \"hit\", _ => \"miss\" } }")>>
    [] site = "matcharr" -> <<T("{ print match ([1, $.k]) { [1, "), L, T("] => \"hit\", _ => \"miss\" } }")>>
    [] site = "matchres" -> <<T("BEGIN { print match (1) { 1 => "), L, T(" } }")>>
    [] site = "tildesubj" -> <<T("BEGIN { print "), L, T(" ~ /^"), RE, T("$/ }")>>
    [] site = "grouped" -> <<T("BEGIN { print ("), L, T(") }")>>
    [] site = "andor" -> <<T("BEGIN { print "), L, T(" && true, false || "), L, T(" }")>>

DigitText(n) == <<SubSeq("0123456789", n + 1, n + 1)>>        \* n <= 9
Truth(b) == IF b THEN Chars("true") ELSE Chars("false")
Lines(val) == FlattenSeq([i \in 1..Len(val) |-> <<val[i], NL>>])
\* what the program prints when the literal denotes val
Out(site, val) ==
  CASE site \in {"print", "assign", "addassign", "arg", "ret", "elem", "objval", "subset", "matchres", "grouped", "recvsplit"} -> val \o <<NL>>
    [] site = "objkey" -> val \o <<NL>>
    [] site = "objkeyget" -> <<"7", NL>>
    [] site = "objkeyin" -> val \o <<"|", "3", NL>>
    [] site = "objkeytwo" -> val \o <<"|", "2", NL, "1", NL>>   \* the same key written twice is one member holding the later value
    [] site = "printlist" -> Chars("1 ") \o val \o Chars(" 2") \o <<NL>>
    [] site = "concatl" -> val \o <<"|", NL>>
    [] site = "concatr" -> <<"|">> \o val \o <<NL>>
    [] site = "eqdoc" -> Chars("true true true true") \o <<NL>>
    [] site = "neqdoc" -> Chars("false false false") \o <<NL>>
    [] site = "not" -> Truth(val = <<>>) \o <<NL>>
    [] site = "cond" -> (IF val = <<>> THEN <<"n">> ELSE <<"y">>) \o <<NL>>
    [] site = "whilecond" -> (IF val = <<>> THEN <<"0">> ELSE <<"2">>) \o <<NL>>
    [] site = "recv" -> DigitText(Len(val)) \o <<NL>>
    [] site = "methodarg" -> <<"2", NL>>
    [] site = "printfarg" -> val \o <<"|">>
    [] site = "printffmt" -> val
    [] site = "forin" -> Lines(val)
    [] site \in {"subget", "subsetget"} -> <<"7", NL>>
    [] site = "subgetdoc" -> <<"5", NL>>
    [] site = "subnested" -> val \o <<"|">> \o val \o <<NL>>
    [] site \in {"subincr", "subaddassign"} -> val \o <<"|", "2", NL>>
    [] site = "subdocassign" -> <<"6", NL, "2", NL>>           \* the member that was 5 is overwritten: still two members
    [] site = "subdelete" -> <<"4", NL>>
    [] site = "matchsubj" -> Chars("bound") \o <<NL>>
    [] site \in {"matchpat", "matcharr"} -> Chars("hit") \o <<NL>>
    [] site = "tildesubj" -> Chars("true") \o <<NL>>
    [] site = "andor" -> Truth(val # <<>>) \o <<" ">> \o Truth(val # <<>>) \o <<NL>>

\* does the site's output determine the value byte for byte (the other sites confront it with an independent copy)?
Reveals(site) == site \in {"print", "printlist", "assign", "addassign", "concatl", "concatr", "arg", "ret", "elem", "objval", "recvsplit",
                           "printfarg", "printffmt", "forin", "subset", "subnested", "subincr", "subaddassign", "matchres", "grouped",
                           "objkey", "objkeyin", "objkeytwo"}

VARIABLES site, al, body, q, done
Init == /\ al \in {1, 2} /\ site \in SitesOf(al) /\ body \in SeqsUpTo(Alphabet(al), Min2(Bound(al))) \cup Probes(al) /\ q = "'" /\ done = FALSE
Next == /\ ~done /\ done' = TRUE /\ UNCHANGED <<site, al>>
        /\ \E s \in (IF Len(body) = 2 /\ body[1] \in Alphabet(al) /\ body[2] \in Alphabet(al) THEN SeqsUpTo(Alphabet(al), Bound(al) - 2) ELSE {<<>>}) : body' = body \o s
        \* (every body up to two bytes; the longer ones with at least one backslash: the others denote themselves)
        /\ Len(body') <= 2 \/ \E i \in 1..Len(body') : body'[i] = "\\"
        /\ q' \in {x \in Quotes : \A i \in 1..Len(body') : body'[i] # x}

Lit == <<q>> \o body \o <<q>>
Prog(v) == Render(Tpl(site), Lit, Escape(v.val))
NLits == Cardinality({i \in 1..Len(Tpl(site)) : Tpl(site)[i].t = "lit"})
Tags(toks) == [i \in 1..Len(toks) |-> toks[i].tag]

\* ---- laws
Laws == done =>
  LET v == StrValue(body)
      r == Tokens(Prog(v))
      \* the same site with the plainest literal in the holes
      r0 == Tokens(Render(Tpl(site), <<"\"", "Q", "\"">>, <<"Q">>)) IN
  \* the literal is one Str token at each hole, whatever its body and quote: the program's token tags do not depend on it ...
  /\ ~r.err /\ ~r0.err /\ Tags(r.toks) = Tags(r0.toks)
  \* ... and the tokens that differ from the plain program's are exactly the holes
  /\ Cardinality({i \in 1..Len(r.toks) : r.toks[i].tag = "Str" /\ r.toks[i].text = body /\ r0.toks[i].text = <<"Q">>}) = NLits
  /\ \A i \in 1..Len(r.toks) : r.toks[i].tag \notin {"Str", "Regex"} => r.toks[i].text = r0.toks[i].text
  \* the regex source written for a value is a literal that denotes the value, and has no '/' and no raw line break
  /\ v.ok => StrValue(Escape(v.val)) = [ok |-> TRUE, val |-> v.val] /\ \A i \in 1..Len(Escape(v.val)) : Escape(v.val)[i] \notin {"/", NL}
  \* a revealing site prints the value unchanged, somewhere in its output
  /\ v.ok /\ Reveals(site) => \E i \in 0..(Len(Out(site, v.val)) - Len(v.val)) : SubSeq(Out(site, v.val), i + 1, i + Len(v.val)) = v.val \/ site = "forin"
  /\ site \in AllSites /\ NLits >= 1

Vec == done =>
  LET v == StrValue(body) IN
  Emit([site |-> site, prog |-> Prog(v), ok |-> v.ok, val |-> v.val, doc |-> site \in DocSites, out |-> IF v.ok THEN Out(site, v.val) ELSE <<>>])
=============================================================================
