----------------------------- MODULE MC_Text -----------------------------
(* C12, function level: every text up to MaxLen bytes over Alphabet, every  *)
(* offset.  One vector per text: the (line, col, srcline) triple per offset. *)
EXTENDS JqText
CONSTANTS MaxLen
Alphabet == {"x", NL, CR, "#", "C3", "A9"}
\* Two phases so that TLC's workers share the evaluation: Init picks a prefix
\* of at most 2 bytes, Next the rest (a unique decomposition of every text).
VARIABLES t, done
Init == /\ t \in SeqsUpTo(Alphabet, 2)
        /\ done = FALSE
Next == /\ ~done
        /\ done' = TRUE
        /\ IF Len(t) < 2 THEN t' = t
           ELSE \E s \in SeqsUpTo(Alphabet, MaxLen - 2) : t' = t \o s
Laws == done => TextLaws(t)
Vec == done => Emit([t |-> t,
             r |-> [p \in 1..(Len(t)+1) |->
                      [line |-> LineOf(t, p-1), col |-> ColOf(t, p-1), src |-> SrcLineOf(t, p-1)]]])
=============================================================================
