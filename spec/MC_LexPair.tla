--------------------------- MODULE MC_LexPair ---------------------------
(* C13, token level: every ordered pair (Arity = 2) or triple (Arity = 3)  *)
(* of tokens of a universe, written with every gap kind and either quote.  *)
(* Laws: Tokens(Layout(T, g)) = T for every lexically permitted g;          *)
(* NeedsSpace is exact; keywords only as whole words; numbers never absorb  *)
(* an adjacent operator.  One vector per layout for the real lexer.         *)
EXTENDS JqLex
CONSTANTS Arity

Id(s) == Tok("Ident", 0, Len(s), Chars(s))
Nm(s) == Tok("Num", 0, Len(s), Chars(s))
St(x) == Tok("Str", 0, Len(x), x)
Rx(s) == Tok("Regex", 0, Len(s), Chars(s))
Kw(i) == Tok(KwList[i][2], 0, 0, Chars(KwList[i][1]))
Pt(s) == Tok(s, 0, 0, Chars(s))

\* identifiers that have a keyword as a prefix or suffix are identifiers
KwLike == {"iffy", "fortune", "printer", "BEGINNER", "xin", "nextone", "is_", "_if", "ENDFILES", "nullify", "inn", "elsewhere"}
Idents == {Id(s) : s \in {"a", "x1", "$x", "$if", "$1"} \cup KwLike}
Nums == {Nm("1"), Nm("25"), Nm("3.5"), Nm("007")}
Strs == {St(<<>>), St(Chars("a")), St(Chars("a # b")), St(<<"\"">>), St(<<"'">>), St(<<"\\", "n">>), St(<<"a", NL, "b">>), St(Chars("/"))}
Rxs == {Rx("x"), Rx("a b"), Rx("#'"), Rx("")}
Kws == {Kw(i) : i \in 1..Len(KwList)}
Puncts == {Pt(s) : s \in Punct1 \cup Punct2} \cup {Pt("$")}

Universe == IF Arity = 2 THEN Idents \cup Nums \cup Strs \cup Rxs \cup Kws \cup Puncts
            ELSE {Id("a"), Id("$x"), Kw(8), Kw(12), Nm("1"), Nm("2.5"), St(Chars("a")), Rx("x")} \cup
                 {Pt(s) : s \in {"$", ".", "-", "=", "+", "==", "(", "++", "/", "!", ">"}}

VARIABLES T, g, qs, done
Init == /\ T \in {x \in [1..Arity -> Universe] : WellFormed(x)}
        /\ g = <<>> /\ qs = <<>> /\ done = FALSE
Next == /\ ~done /\ done' = TRUE /\ T' = T
        /\ g' \in [1..(Arity - 1) -> GapKinds]
        /\ qs' \in {q \in [1..Arity -> Quotes] : \A i \in 1..Arity : q[i] \in AllowedQuotes(T[i])}

\* (a ';' written before a '/' puts it in prefix position: the sequence with the ';' is not one a lexer run produces)
LexicallyPermitted == \A i \in 1..(Arity - 1) : /\ g[i] = "none" => ~NeedsSpace(T[i], T[i+1])
                                                /\ g[i] = "semi" => T[i+1].tag \notin {"/", "/="}

\* ---- laws
RoundTrip == (done /\ LexicallyPermitted) =>
  LET r == Tokens(Layout(T, g, qs, "none", "none")) IN
  /\ ~r.err /\ ~r.open
  /\ Sig(r.toks) = Expected(T, g)
  \* a newline token exactly for the newline kinds
  /\ \A i \in 1..(Arity - 1) : g[i] # "semi" =>
        LET before == Cardinality({j \in 1..i : g[j] = "semi"}) IN
        NlAfter(r.toks)[i + before + 1] = (g[i] \in NlKinds)

\* NeedsSpace is exact: written together, a pair that needs space does not lex
\* to the pair (or is a spelling the statement leaves open)
Exact == (done /\ Arity = 2 /\ g[1] = "none") =>
  LET r == Tokens(Layout(T, g, qs, "none", "none")) IN
  NeedsSpace(T[1], T[2]) <=> (r.err \/ r.open \/ Sig(r.toks) # Expected(T, g))

Laws == RoundTrip /\ Exact

\* ---- laws that do not depend on the state (checked once, as assumptions)
One(text, tag) == LET r == Tokens(text) IN ~r.err /\ ~r.open /\ Len(r.toks) = 1 /\ r.toks[1].tag = tag /\ r.toks[1].text = text
Affixes == {"a", "Z", "_", "0", "9"}
ASSUME KeywordsWholeWordsOnly ==
  /\ \A w \in KwWords : One(w, KwTag[w])
  /\ \A w \in KwWords : \A a \in Affixes : One(w \o <<a>>, "Ident")
  /\ \A w \in KwWords : \A a \in Affixes \ Digits : One(<<a>> \o w, "Ident")
  /\ \A w \in KwWords : \A v \in KwWords : (w \o v) \notin KwWords => One(w \o v, "Ident")
  /\ \A s \in KwLike : One(Chars(s), "Ident")
  /\ \A w \in KwWords : One(<<"$">> \o w, "Ident")

NumSpellings == {"0", "7", "12", "3.5", "10.25", "007", "1.50"}
Ops == (Punct1 \cup Punct2) \ {".", "/", "/="}
ASSUME NumbersNeverAbsorbOperators ==
  \A n \in NumSpellings : \A o \in Ops : \A m \in NumSpellings :
    LET a == Tokens(Chars(n) \o Chars(o))
        b == Tokens(Chars(o) \o Chars(n))
        c == Tokens(Chars(n) \o Chars(o) \o Chars(m))
    IN /\ Sig(a.toks) = <<<<"Num", Chars(n)>>, <<o, Chars(o)>>>> /\ ~a.err /\ ~a.open
       /\ Sig(b.toks) = <<<<o, Chars(o)>>, <<"Num", Chars(n)>>>> /\ ~b.err /\ ~b.open
       /\ Sig(c.toks) = <<<<"Num", Chars(n)>>, <<o, Chars(o)>>, <<"Num", Chars(m)>>>>

\* ---- vectors: the text and what the real lexer (driven like the parser
\* drives it) must return for it
Compact(toks) == [i \in 1..Len(toks) |-> [g |-> toks[i].tag, p |-> toks[i].pos, n |-> toks[i].len, x |-> toks[i].text]]
Vec == done =>
  LET tx == Layout(T, g, qs, "none", "none")
      r == Tokens(tx)
      d == TokensDev(tx, TRUE, {"lex-minus-in-number"})
  IN Emit([t |-> tx, toks |-> Compact(r.toks), err |-> r.err, open |-> r.open,
           dev |-> IF d = r THEN <<>> ELSE <<[toks |-> Compact(d.toks), err |-> d.err]>>])
=============================================================================
