------------------------------ MODULE MC_Cli ------------------------------
(* C14: the full product of command lines of JqCli x the three possible      *)
(* library results.  TLC checks the step-level properties in every state,    *)
(* the relational laws over the whole product, and emits one vector per      *)
(* (command line, library result): what the binary must then show.           *)
EXTENDS JqCli

\* where the program may stop in a run over n input files
Stops(n) == {"never", "begin"} \cup (IF n >= 1 THEN {"in1"} ELSE {}) \cup (IF n >= 2 THEN {"in2"} ELSE {})
\* what the wrapper refuses by itself (given a program it could load)
WrapperRefuses(c) == ~c.badProg /\ (InputFault(c) \/ (JsonWanted(c) /\ c.nfiles > 1))
Configs ==
  {c \in [progVia : {"inline", "file"}, nfiles : 0..2, same : BOOLEAN, nsel : 0..2, out : {"none", "dash", "path"},
          badProg : BOOLEAN, badAt : 0..2, badKind : {"none", "missing", "unreadable"},
          stop : {"pool"} \cup StopsAll, alias : {"none", "input", "spelled", "symlink", "hardlink"},
          pre : {"absent", "stale"}, ofault : {"none"} \cup OutFaults] :
     /\ c.badProg => c.progVia = "file"
     \* one path cannot be usable the first time and unusable the second
     /\ c.same => (c.nfiles = 2 /\ c.badAt <= 1)
     /\ c.badAt <= c.nfiles
     /\ (c.badAt = 0) <=> (c.badKind = "none")
     \* a refusal by the wrapper x every point at which the program may stop; else the programs of the pool
     /\ IF WrapperRefuses(c) THEN c.stop \in Stops(c.nfiles) ELSE c.stop = "pool"
     \* in place: -o names the one input file
     /\ c.alias # "none" => (c.out = "path" /\ c.nfiles = 1 /\ c.badAt = 0 /\ ~c.badProg)
     \* a -o path of its own x what it holds beforehand: in every shape, also those the wrapper refuses
     /\ c.pre = "stale" => (c.out = "path" /\ c.alias = "none" /\ c.ofault = "none")
     \* a -o path that cannot be created / written x every shape that gets as far as the JSON step
     /\ c.ofault # "none" => (c.out = "path" /\ c.alias = "none" /\ c.nfiles <= 1 /\ c.badAt = 0 /\ ~c.badProg)}
NShapes == Cardinality({[c EXCEPT !.stop = "pool", !.alias = "none", !.pre = "absent", !.ofault = "none"] : c \in Configs})

Init == \E c \in Configs : Start(c)
Next == \E r \in LibResults : CliNext(r)
Spec == Init /\ [][Next]_cvars

\* the laws are about the function Result only: evaluate them once, in the initial states
Laws ==
  pc = "parse" => /\ LawProgVia({cfg}) /\ LawStdin({cfg}) /\ LawOutPath({cfg}) /\ LawOutBytes({cfg}) /\ LawErrors({cfg}) /\ LawSamePath({cfg})
                  /\ LawStop({cfg}) /\ LawInPlace({cfg}) /\ LawOutFault({cfg}) /\ LawPre({cfg})

\* every command line shape is present
Complete ==
  pc = "parse" =>
    /\ NShapes = 324 /\ Cardinality(Configs) = 1128
    \* every refusal of the wrapper at every stop, every way of naming the input with -o
    /\ \A c \in Configs : WrapperRefuses(c) => \A s \in Stops(c.nfiles) : [c EXCEPT !.stop = s] \in Configs
    \* every -o path of its own also with an earlier result in it; every fault of the path x -f / inline x stdin / file x selectors
    /\ \A c \in Configs : (c.out = "path" /\ c.alias = "none" /\ c.ofault = "none") => [c EXCEPT !.pre = "stale"] \in Configs
    /\ \A v \in {"inline", "file"}, n \in 0..1, s \in 0..2, f \in OutFaults :
         \E c \in Configs : c.progVia = v /\ c.nfiles = n /\ c.nsel = s /\ c.out = "path" /\ c.ofault = f
    /\ \A v \in {"inline", "file"}, s \in 0..2, a \in {"input", "spelled", "symlink", "hardlink"} :
         \E c \in Configs : c.progVia = v /\ c.nfiles = 1 /\ c.nsel = s /\ c.out = "path" /\ c.alias = a
    /\ \A v \in {"inline", "file"}, s \in 0..2, o \in {"none", "dash", "path"} :
         \E c \in Configs : c.progVia = v /\ c.nfiles = 2 /\ c.same /\ c.nsel = s /\ c.out = o /\ ~c.badProg /\ c.badAt = 0
    /\ \A v \in {"inline", "file"}, n \in 0..2, s \in 0..2, o \in {"none", "dash", "path"} :
         \E c \in Configs : c.progVia = v /\ c.nfiles = n /\ c.nsel = s /\ c.out = o /\ ~c.badProg /\ c.badAt = 0

Vec ==
  (pc = "exit" /\ status # -1) =>
    Emit([cfg |-> cfg, lib |-> lib, evaluated |-> Len(calls) = 1,
          status0 |-> status = 0, diag |-> stderr # <<>>, stdout |-> stdout, outfile |-> outfile])
=============================================================================
