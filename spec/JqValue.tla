----------------------------- MODULE JqValue -----------------------------
(* Values, coercions, operators and the string / number / object methods   *)
(* of jqawk (DESIGN.md section 3 = the operator tables, 4.4).  Serves C05   *)
(* (MC_Ops) and C16 (MC_Methods).                                           *)
(*                                                                          *)
(* A value is a record with a kind field k:                                 *)
(*   [k |-> "num", n, d, e, nz]  the exact rational (n/d) * 2^e, n and d odd *)
(*                               (or n = 0), d > 0, gcd(n, d) = 1; nz marks  *)
(*                               IEEE negative zero (only when n = 0).       *)
(*                               TLC's integers have 32 bits, hence the      *)
(*                               binary exponent: 2^53 is [1, 1, 53].        *)
(*   [k |-> "sum", x, y]         the exact sum of two "num"s whose exponents *)
(*                               are too far apart to align in 32 bits       *)
(*                               (only ever a *result*, never an operand);   *)
(*                               x is the term with the larger exponent      *)
(*   [k |-> "inf", neg]          an IEEE infinity;  [k |-> "nan"]  IEEE NaN.  *)
(*                               Never literals: they are num() of the       *)
(*                               strings inf / infinity / nan (section 3.1)  *)
(*                               and the results of arithmetic on those      *)
(*   [k |-> "str", s]            a byte string (JqUtil bytes)                *)
(*   [k |-> "bool", b]  [k |-> "null"]  [k |-> "unset"]                      *)
(*   [k |-> "arr", len]  [k |-> "obj", len]   (operators see only the kind)  *)
(*   [k |-> "regex", s]          a /.../ literal with source text s          *)
(*   [k |-> "fn"]                a user function                             *)
(* A double operation is "the nearest double to the exact result"; the      *)
(* rounding is done by the harness (math/big), the spec is exact.           *)
EXTENDS JqUtil

\* ------------------------------------------------------------------ bytes
Ascii == " !\"#$%&'()*+,-./0123456789:;<=>?@ABCDEFGHIJKLMNOPQRSTUVWXYZ[\\]^_`abcdefghijklmnopqrstuvwxyz{|}~"
HexDigits == "0123456789ABCDEF"
HexVal(c) == (CHOOSE i \in 1..16 : SubSeq(HexDigits, i, i) = c) - 1
\* numeric code of a byte (printable ASCII, or a hex-named byte >= 0x80)
ByteCode(b) ==
  IF Len(b) = 1 THEN 31 + (CHOOSE i \in 1..Len(Ascii) : SubSeq(Ascii, i, i) = b)
  ELSE 16 * HexVal(SubSeq(b, 1, 1)) + HexVal(SubSeq(b, 2, 2))

Digit == {"0", "1", "2", "3", "4", "5", "6", "7", "8", "9"}
DigitVal(b) == ByteCode(b) - 48
DigitChar(i) == SubSeq("0123456789", i + 1, i + 1)

\* bytewise three-way comparison of two byte strings
StrCmp(s, t) ==
  LET m == IF Len(s) < Len(t) THEN Len(s) ELSE Len(t)
      D == {i \in 1..m : s[i] # t[i]}
  IN IF D = {} THEN (IF Len(s) < Len(t) THEN -1 ELSE IF Len(s) > Len(t) THEN 1 ELSE 0)
     ELSE LET i == SetMin(D) IN IF ByteCode(s[i]) < ByteCode(t[i]) THEN -1 ELSE 1

\* t occurs in s at (1-based) position i
OccursAt(s, t, i) == i >= 1 /\ i + Len(t) - 1 <= Len(s) /\ SubSeq(s, i, i + Len(t) - 1) = t
Contains(s, t) == \E i \in 1..(Len(s) + 1) : OccursAt(s, t, i)

\* ---------------------------------------------------------------- numbers
Abs(x) == IF x < 0 THEN -x ELSE x
RECURSIVE Gcd(_, _)
Gcd(a, b) == IF b = 0 THEN a ELSE Gcd(b, a % b)
RECURSIVE Pow(_, _)
Pow(b, k) == IF k = 0 THEN 1 ELSE b * Pow(b, k - 1)

RECURSIVE StripN(_, _, _)
StripN(n, d, e) == IF n % 2 = 0 THEN StripN(n \div 2, d, e + 1) ELSE <<n, d, e>>
RECURSIVE StripD(_, _, _)
StripD(n, d, e) == IF d % 2 = 0 THEN StripD(n, d \div 2, e - 1) ELSE <<n, d, e>>

Zero == [k |-> "num", n |-> 0, d |-> 1, e |-> 0, nz |-> FALSE]
NegZero == [k |-> "num", n |-> 0, d |-> 1, e |-> 0, nz |-> TRUE]
\* the number (n/d) * 2^e, d > 0, in normal form
\* (definitions are chained through parameters rather than through LET: TLC's coverage
\* cost model copies a LET definition at every reference)
NumByGcd(sg, t, g) == [k |-> "num", n |-> sg * (t[1] \div g), d |-> t[2] \div g, e |-> t[3], nz |-> FALSE]
NumOddD(sg, t) == NumByGcd(sg, t, Gcd(t[1], t[2]))                  \* t = <<n, d, e>>, n and d odd
NumOddN(sg, t) == NumOddD(sg, StripD(t[1], t[2], t[3]))             \* n odd
Num(n, d, e) == IF n = 0 THEN Zero ELSE NumOddN(IF n < 0 THEN -1 ELSE 1, StripN(Abs(n), d, e))
I(i) == Num(i, 1, 0)
\* the non-finite doubles
Inf(neg) == [k |-> "inf", neg |-> neg]
PosInf == Inf(FALSE)
NegInf == Inf(TRUE)
NaN == [k |-> "nan"]
IsFin(x) == x.k = "num"
IsZero(x) == x.k = "num" /\ x.n = 0
IsNeg(x) == CASE x.k = "inf" -> x.neg [] x.k = "nan" -> FALSE [] OTHER -> x.n < 0 \/ x.nz        \* the IEEE sign bit
Neg(x) ==
  CASE x.k = "inf" -> Inf(~x.neg)
    [] x.k = "nan" -> NaN
    [] OTHER -> IF x.n = 0 THEN [x EXCEPT !.nz = ~x.nz] ELSE [x EXCEPT !.n = -x.n]

\* largest shift for which aligning two operands stays inside 32 bits; operands
\* have |n|, d < 2^6 (checked for the universe by MC_Ops.UniverseOK)
MaxShift == 16
\* x, y non-zero, e0 the smaller exponent
AddAligned(x, y, e0) ==
  IF x.e - e0 > MaxShift \/ y.e - e0 > MaxShift THEN (IF x.e > y.e THEN [k |-> "sum", x |-> x, y |-> y] ELSE [k |-> "sum", x |-> y, y |-> x])
  ELSE Num(x.n * Pow(2, x.e - e0) * y.d + y.n * Pow(2, y.e - e0) * x.d, x.d * y.d, e0)
AddFin(x, y) ==
  IF IsZero(x) /\ IsZero(y) THEN (IF x.nz /\ y.nz THEN NegZero ELSE Zero)
  ELSE IF IsZero(x) THEN y
  ELSE IF IsZero(y) THEN x
  ELSE AddAligned(x, y, IF x.e < y.e THEN x.e ELSE y.e)
\* IEEE: NaN is contagious; inf + (-inf) is NaN; otherwise an infinity absorbs
Add(x, y) ==
  IF x.k = "nan" \/ y.k = "nan" THEN NaN
  ELSE IF x.k = "inf" THEN (IF y.k = "inf" /\ y.neg # x.neg THEN NaN ELSE x)
  ELSE IF y.k = "inf" THEN y
  ELSE AddFin(x, y)
Sub(x, y) == Add(x, Neg(y))
MulFin(x, y) ==
  IF IsZero(x) \/ IsZero(y) THEN (IF IsNeg(x) # IsNeg(y) THEN NegZero ELSE Zero)
  ELSE Num(x.n * y.n, x.d * y.d, x.e + y.e)
\* IEEE: inf * 0 is NaN, otherwise inf * y is an infinity with the product's sign
Mul(x, y) ==
  IF x.k = "nan" \/ y.k = "nan" THEN NaN
  ELSE IF x.k = "inf" \/ y.k = "inf" THEN (IF IsZero(x) \/ IsZero(y) THEN NaN ELSE Inf(IsNeg(x) # IsNeg(y)))
  ELSE MulFin(x, y)
\* y # 0
DivFin(x, y) ==
  IF IsZero(x) THEN (IF IsNeg(x) # IsNeg(y) THEN NegZero ELSE Zero)
  ELSE Num((IF y.n < 0 THEN -1 ELSE 1) * x.n * y.d, x.d * Abs(y.n), x.e - y.e)

\* y # 0.  IEEE: inf / inf is NaN, inf / y an infinity, x / inf a zero, each with the quotient's sign
Div(x, y) ==
  IF x.k = "nan" \/ y.k = "nan" THEN NaN
  ELSE IF x.k = "inf" THEN (IF y.k = "inf" THEN NaN ELSE Inf(IsNeg(x) # IsNeg(y)))
  ELSE IF y.k = "inf" THEN (IF IsNeg(x) # IsNeg(y) THEN NegZero ELSE Zero)
  ELSE DivFin(x, y)

\* sign of a num or a sum (-1, 0, 1); in a sum the first term has the larger
\* exponent and dominates (gap > MaxShift bits, mantissas below 2^6)
SignOf(x) ==
  IF x.k = "sum" THEN (IF x.x.n < 0 THEN -1 ELSE 1)
  ELSE IF x.k = "inf" THEN (IF x.neg THEN -1 ELSE 1)
  ELSE IF x.n < 0 THEN -1 ELSE IF x.n > 0 THEN 1 ELSE 0
\* NaN is not ordered: NumCmp is for operands that are not NaN
Unordered(x, y) == x.k = "nan" \/ y.k = "nan"
NumCmp(x, y) == IF x.k = "inf" /\ x = y THEN 0 ELSE SignOf(Sub(x, y))
\* equal, ignoring the sign of zero (NaN equals nothing)
NumEq(x, y) ==
  IF x.k = "num" /\ y.k = "num" THEN x.n = y.n /\ x.d = y.d /\ x.e = y.e
  ELSE x.k = "inf" /\ x = y

\* truncation toward zero, as a num.  |x| >= 2^MaxShift has no fraction bits here.
Trunc(x) ==
  IF x.k \in {"inf", "nan"} THEN x
  ELSE IF IsZero(x) THEN Zero
  ELSE IF x.d = 1 /\ x.e >= 0 THEN x
  ELSE IF x.e >= 0 THEN I((IF x.n < 0 THEN -1 ELSE 1) * ((Abs(x.n) * Pow(2, x.e)) \div x.d))
  ELSE IF -x.e > 24 THEN Zero
  ELSE I((IF x.n < 0 THEN -1 ELSE 1) * (Abs(x.n) \div (x.d * Pow(2, -x.e))))

RECURSIVE PowMod(_, _, _)
PowMod(b, k, m) == IF k = 0 THEN 1 % m ELSE (b * PowMod(b, k - 1, m)) % m
Small(x) == x.e <= 24
IntOf(x) == x.n * Pow(2, x.e)        \* an integer-valued Small num as a TLC integer
\* remainder of integer-valued x by integer-valued y # 0 (both n * 2^e, e >= 0), sign of the
\* dividend.  Both are scaled down by 2^em; then one of them is an odd integer below 2^6.
RemScaled(x, sg, em, ex, m) == Num(sg * (((Abs(x.n) % m) * PowMod(2, ex, m)) % m), 1, em)
RemBy(x, y, em) ==                    \* em the smaller exponent; ex = x.e - em, ey = y.e - em
  IF y.e - em <= 8 THEN RemScaled(x, IF x.n < 0 THEN -1 ELSE 1, em, x.e - em, Abs(y.n) * Pow(2, y.e - em))
  ELSE x                              \* ex = 0 and |x| < 2^6 * 2^em < |y|
Rem(x, y) == IF IsZero(x) THEN Zero ELSE RemBy(x, y, IF x.e < y.e THEN x.e ELSE y.e)
\* |x| >= 2^63: outside the range of a 64-bit integer (x integer-valued)
Beyond63(x) == IsFin(x) /\ ~IsZero(x) /\ x.e >= 58 /\ (x.e - 58 > 5 \/ Abs(x.n) * Pow(2, x.e - 58) >= 32)

\* ----- decimal text of a dyadic number (d = 1), the `strconv 'f', -1` form.
\* Little-endian digit sequences so that 2^53 and 5^20 need no big integers.
RECURSIVE MulDig(_, _, _)
MulDig(ds, m, c) ==
  IF ds = <<>> THEN (IF c = 0 THEN <<>> ELSE <<c % 10>> \o MulDig(<<>>, m, c \div 10))
  ELSE LET t == Head(ds) * m + c IN <<t % 10>> \o MulDig(Tail(ds), m, t \div 10)
RECURSIVE MulPow(_, _, _)
MulPow(ds, m, k) == IF k = 0 THEN ds ELSE MulPow(MulDig(ds, m, 0), m, k - 1)
RECURSIVE DigitsLE(_)
DigitsLE(i) == IF i < 10 THEN <<i>> ELSE <<i % 10>> \o DigitsLE(i \div 10)
Rev(s) == [i \in 1..Len(s) |-> s[Len(s) + 1 - i]]
DigText(ds) == [i \in 1..Len(ds) |-> DigitChar(ds[i])]       \* big-endian digits -> bytes
\* exact decimal expansion of |x|
PadTo(raw, kk) == raw \o [i \in 1..(IF Len(raw) > kk THEN 0 ELSE kk + 1 - Len(raw)) |-> 0]
PointAt(pad, kk) == DigText(Rev(SubSeq(pad, kk + 1, Len(pad)))) \o <<".">> \o DigText(Rev(SubSeq(pad, 1, kk)))
ExactText(x) ==
  IF x.e >= 0 THEN DigText(Rev(MulPow(DigitsLE(Abs(x.n)), 2, x.e)))
  ELSE PointAt(PadTo(MulPow(DigitsLE(Abs(x.n)), 5, -x.e), -x.e), -x.e)   \* n * 5^k / 10^k with k = -e
\* The print form is the SHORTEST decimal that reads back as the same double.  Up to 16
\* significant digits that is the exact expansion; the longer numbers the models use are
\* listed here (leaf facts; the harness checks them against strconv).
LongNumTexts == {<<[n |-> 1, e |-> 70], Chars("1180591620717411300000")>>}
AbsText(x, long) == IF x.n = 0 THEN <<"0">> ELSE IF long # {} THEN (CHOOSE p \in long : TRUE)[2] ELSE ExactText(x)
NumText(x) ==
  IF x.k = "inf" THEN (IF x.neg THEN <<"-", "I", "n", "f">> ELSE <<"+", "I", "n", "f">>)
  ELSE IF x.k = "nan" THEN <<"N", "a", "N">>
  ELSE
  (IF IsNeg(x) THEN <<"-">> ELSE <<>>) \o AbsText(x, {p \in LongNumTexts : p[1].n = Abs(x.n) /\ p[1].e = x.e /\ x.d = 1})

\* ----- numeric strings: [sign] digits [. digits] [e [sign] digits], at least
\* one mantissa digit, nothing else (no blanks): ParseNum.  The non-finite spellings
\* [sign] inf, [sign] infinity and nan (no sign), in any letter case: ParseSpecial.
\* ParseNumX reads both.  Go's hex and _ spellings are outside the model.
RECURSIVE SpanDigits(_, _)
SpanDigits(s, i) == IF i <= Len(s) /\ s[i] \in Digit THEN SpanDigits(s, i + 1) ELSE i
RECURSIVE DigitsValue(_)
DigitsValue(ds) == IF ds = <<>> THEN 0 ELSE 10 * DigitsValue(SubSeq(ds, 1, Len(ds) - 1)) + DigitVal(ds[Len(ds)])
NoNum == [ok |-> FALSE]
\* A scanner in stages, each handing what it found to the next one:
\*   sign (i0 = index after it), integer digits (up to i1), "." and fraction digits (up to i2),
\*   exponent marker, exponent sign, exponent digits (j0 up to j1), end of text
PSigned(neg, q) == [ok |-> TRUE, v |-> IF neg THEN Neg(q) ELSE q]
PValue(neg, m, e10) ==                                    \* mantissa m (an integer) times 10^e10
  IF m = 0 THEN [ok |-> TRUE, v |-> IF neg THEN NegZero ELSE Zero]
  ELSE PSigned(neg, IF e10 >= 0 THEN Num(m * Pow(5, e10), 1, e10) ELSE Num(m, Pow(5, -e10), e10))
PCheck(neg, intd, frac, hasE, expd, eneg, atEnd) ==
  IF Len(intd) + Len(frac) = 0 \/ (hasE /\ expd = <<>>) \/ ~atEnd THEN NoNum
  ELSE PValue(neg, DigitsValue(intd \o frac), (IF eneg THEN -1 ELSE 1) * DigitsValue(expd) - Len(frac))
PExpDigits(s, neg, intd, frac, hasE, eneg, j0, j1) ==
  PCheck(neg, intd, frac, hasE, IF hasE THEN SubSeq(s, j0, j1 - 1) ELSE <<>>, eneg, j1 = Len(s) + 1)
PExpStart(s, neg, intd, frac, i2, hasE, eneg, j0) ==
  PExpDigits(s, neg, intd, frac, hasE, eneg, j0, IF hasE THEN SpanDigits(s, j0) ELSE i2)
PExpSign(s, neg, intd, frac, i2, hasE) ==
  PExpStart(s, neg, intd, frac, i2, hasE, hasE /\ i2 + 1 <= Len(s) /\ s[i2 + 1] = "-",
            IF hasE /\ i2 + 1 <= Len(s) /\ s[i2 + 1] \in {"+", "-"} THEN i2 + 2 ELSE i2 + 1)
PFraction(s, neg, intd, i1, dot, i2) ==
  PExpSign(s, neg, intd, IF dot THEN SubSeq(s, i1 + 1, i2 - 1) ELSE <<>>, i2, i2 <= Len(s) /\ s[i2] \in {"e", "E"})
PPoint(s, neg, intd, i1, dot) == PFraction(s, neg, intd, i1, dot, IF dot THEN SpanDigits(s, i1 + 1) ELSE i1)
PInteger(s, neg, i0, i1) == PPoint(s, neg, SubSeq(s, i0, i1 - 1), i1, i1 <= Len(s) /\ s[i1] = ".")
PSign(s, neg, i0) == PInteger(s, neg, i0, SpanDigits(s, i0))
ParseNum(s) == PSign(s, Len(s) >= 1 /\ s[1] = "-", IF Len(s) >= 1 /\ s[1] \in {"+", "-"} THEN 2 ELSE 1)

\* s is the word lo = up written in any mixture of the two letter cases
CaselessIs(s, lo, up) == Len(s) = Len(lo) /\ \A i \in 1..Len(s) : s[i] = lo[i] \/ s[i] = up[i]
IsInfWord(b) == CaselessIs(b, Chars("inf"), Chars("INF")) \/ CaselessIs(b, Chars("infinity"), Chars("INFINITY"))
SpecialAfterSign(s, signed) ==
  IF IsInfWord(IF signed THEN Tail(s) ELSE s) THEN [ok |-> TRUE, v |-> Inf(signed /\ s[1] = "-")]
  ELSE IF CaselessIs(s, Chars("nan"), Chars("NAN")) THEN [ok |-> TRUE, v |-> NaN]
  ELSE NoNum
ParseSpecial(s) == SpecialAfterSign(s, Len(s) >= 1 /\ s[1] \in {"+", "-"})
NumOrSpecial(sp, s) == IF sp.ok THEN sp ELSE ParseNum(s)
ParseNumX(s) == NumOrSpecial(ParseSpecial(s), s)

\* ----------------------------------------------------------------- values
VStr(s) == [k |-> "str", s |-> s]
VBool(b) == [k |-> "bool", b |-> b]
VNull == [k |-> "null"]
VUnset == [k |-> "unset"]
VArr(len) == [k |-> "arr", len |-> len]
VObj(len) == [k |-> "obj", len |-> len]
VRegex(s) == [k |-> "regex", s |-> s]
VFn == [k |-> "fn"]
VNative == [k |-> "native"]     \* a built-in function (printf, num, json): only ever the left operand of `is`
Kinds == {"num", "str", "bool", "null", "unset", "arr", "obj", "regex", "fn"}

\* ------------------------------------------------- 3.1 the three coercions
Truthy(v) ==
  CASE v.k = "num" -> v.n # 0
    [] v.k \in {"inf", "nan"} -> TRUE              \* (not zero)
    [] v.k = "str" -> v.s # <<>>
    [] v.k = "bool" -> v.b
    [] v.k \in {"arr", "obj", "fn"} -> TRUE
    [] OTHER -> FALSE                          \* null, unset, regex
ParsedOrZero(p) == IF p.ok THEN p.v ELSE Zero
NumOf(v) ==
  CASE v.k \in {"num", "inf", "nan"} -> v
    [] v.k = "bool" -> IF v.b THEN I(1) ELSE Zero
    [] v.k = "str" -> ParsedOrZero(ParseNumX(v.s))
    [] OTHER -> Zero
StrOf(v) ==
  CASE v.k = "str" -> v.s
    [] v.k \in {"num", "inf", "nan"} -> NumText(v)
    [] OTHER -> <<>>

Ok(v) == [ok |-> TRUE, v |-> v]
Err == [ok |-> FALSE]                                           \* a runtime error
Unfixed == [ok |-> TRUE, v |-> [k |-> "unfixed"]]               \* the statement leaves the cell open
OkOpen == [ok |-> TRUE, v |-> [k |-> "okopen"]]                 \* a value (NOT a runtime error); which one is left open

\* ------------------------------------------------------ 3.2 unary operators
UnOps == {"!", "-", "+"}
UnOp(op, v) ==
  CASE op = "!" -> Ok(VBool(~Truthy(v)))
    [] op = "+" -> Ok(NumOf(v))
    [] op = "-" -> Ok(Neg(NumOf(v)))
\* ++x --x x++ x--: the value of the expression and the value stored in x
IncDecOf(prefix, old, new) == [value |-> IF prefix THEN new ELSE old, stored |-> new]
IncDecNum(op, prefix, old) == IncDecOf(prefix, old, IF op = "++" THEN Add(old, I(1)) ELSE Sub(old, I(1)))
IncDec(op, prefix, v) == IncDecNum(op, prefix, NumOf(v))

\* ---------------------------------------------------------- 3.3 arithmetic
ArithOps == {"+", "-", "*", "/", "%"}
\* tx, ty truncated.  An error exactly when the divisor is zero; a finite dividend is its own remainder
\* by an infinite divisor; what the remainder of an infinite dividend, or by NaN, is stays open
RemOf(tx, ty) ==
  IF IsZero(ty) THEN Err
  ELSE IF tx.k = "num" /\ ty.k = "num" THEN Ok(Rem(tx, ty))
  ELSE IF tx.k = "num" /\ ty.k = "inf" THEN Ok(IF IsZero(tx) THEN Zero ELSE tx)
  ELSE OkOpen
ArithNum(op, x, y) ==
  CASE op = "+" -> Ok(Add(x, y))
    [] op = "-" -> Ok(Sub(x, y))
    [] op = "*" -> Ok(Mul(x, y))
    [] op = "/" -> IF IsZero(y) THEN Err ELSE Ok(Div(x, y))
    [] op = "%" -> RemOf(Trunc(x), Trunc(y))
Arith(op, l, r) ==
  IF op = "+" /\ (l.k = "str" \/ r.k = "str") THEN Ok(VStr(StrOf(l) \o StrOf(r)))
  ELSE ArithNum(op, NumOf(l), NumOf(r))

\* --------------------------------------------------------- 3.4 comparisons
CmpOps == {"==", "!=", "<", "<=", ">", ">="}
\* rows 2-7: a three-way result [ok, c] or a runtime error; x, y the numeric readings of l, r (not NaN: see NanCmp)
CmpBy(l, r, x, y) ==
  CASE l.k = "null" /\ r.k = "null" -> [ok |-> TRUE, c |-> 0]
    [] l.k = "null" /\ r.k # "null" -> [ok |-> TRUE, c |-> -1]
    [] l.k # "null" /\ r.k = "null" -> [ok |-> TRUE, c |-> 1]
    [] OTHER ->
       IF l.k \in {"arr", "obj"} \/ r.k \in {"arr", "obj"} THEN [ok |-> FALSE]
       ELSE IF l.k = "str" /\ r.k = "str" THEN [ok |-> TRUE, c |-> StrCmp(l.s, r.s)]
       ELSE [ok |-> TRUE, c |-> NumCmp(x, y)]
CmpX(l, r) == CmpBy(l, r, NumOf(l), NumOf(r))
\* The same on the FINITE fragment: numeric strings by the decimal grammar only.  For the modules that instantiate
\* JqValue over universes they read with ParseNum (JqMatchLit); equal to CmpX wherever no operand is a non-finite
\* spelling (law CmpAgree of MC_Ops)
NumOfDec(v) == IF v.k = "str" THEN ParsedOrZero(ParseNum(v.s)) ELSE NumOf(v)
Cmp(l, r) == CmpBy(l, r, NumOfDec(l), NumOfDec(r))
CmpFixed(op, l, r) == ~(op \in {"!=", "<=", ">="} /\ (l.k = "unset" \/ r.k = "unset"))
\* row 7 with NaN on one side: NaN is not ordered, the outcome is a boolean the statement does not fix
NanCmp(l, r) ==
  /\ {l.k, r.k} \cap {"null", "unset", "arr", "obj"} = {} /\ ~(l.k = "str" /\ r.k = "str")
  /\ Unordered(NumOf(l), NumOf(r))
CompareBy(op, c) ==
  IF ~c.ok THEN Err
  ELSE Ok(VBool(CASE op = "<" -> c.c < 0 [] op = "<=" -> c.c <= 0 [] op = ">" -> c.c > 0
                  [] op = ">=" -> c.c >= 0 [] op = "==" -> c.c = 0 [] op = "!=" -> c.c # 0))
Compare(op, l, r) ==
  IF l.k = "unset" \/ r.k = "unset" THEN                       \* row 1
     (CASE op \in {"<", ">"} -> Ok(VBool(TRUE))
        [] op = "==" -> Ok(VBool(FALSE))
        [] OTHER -> Unfixed)
  ELSE IF NanCmp(l, r) THEN OkOpen
  ELSE CompareBy(op, CmpX(l, r))

\* --------------------------------------------------------------- 3.5 logic
LogicOps == {"&&", "||"}
\* is the right operand evaluated at all?
EvalsRight(op, l) == CASE op = "&&" -> Truthy(l) [] op = "||" -> ~Truthy(l) [] OTHER -> TRUE
Logic(op, l, r) ==
  IF op = "&&" THEN Ok(VBool(IF Truthy(l) THEN Truthy(r) ELSE FALSE))
  ELSE Ok(VBool(IF Truthy(l) THEN TRUE ELSE Truthy(r)))

\* ------------------------------------------------------------------ 3.6 is
TypeName(v) ==
  CASE v.k \in {"num", "inf", "nan"} -> "number" [] v.k = "str" -> "string" [] v.k = "bool" -> "bool"
    [] v.k = "arr" -> "array" [] v.k = "obj" -> "object" [] v.k = "regex" -> "regex"
    [] v.k = "fn" -> "function" [] v.k = "null" -> "null" [] v.k = "unset" -> "unknown"
TypeNames == {"number", "string", "bool", "array", "object", "regex", "function", "null", "unknown"}
\* any identifier other than the nine type names gives false, whatever v is (the names are
\* case-sensitive; internal tag names such as nil or nativefunction are NOT type names);
\* what the nine names say about a built-in function is not fixed by the statement
IsOp(v, name) ==
  IF name \notin TypeNames THEN Ok(VBool(FALSE))
  ELSE IF v.k = "native" THEN Unfixed
  ELSE Ok(VBool(name = TypeName(v)))

\* ------------------------------------------------------------- 3.7 ~ and !~
\* The RE2 engine is outside the model.  A pattern without metacharacters is a
\* substring search; the others are listed here, each with its meaning written
\* out as a predicate on the subject text (texts of the model have no newline).
MatchOps == {"~", "!~"}
MetaChars == {".", "^", "$", "|", "(", ")", "[", "]", "*", "+", "?", "\\", "{", "}"}
MetaFree(p) == \A i \in 1..Len(p) : p[i] \notin MetaChars
InvalidPatterns == {Chars("("), Chars("[a")}
SpecialPatterns == {Chars("^5"), Chars("5$"), Chars("^$"), Chars("[0-9]"), Chars("a|x"), Chars("."),
                    Chars("2.5"), Chars("^-?[0-9]+$"), Chars("ab*c")}
PatDefined(p) == MetaFree(p) \/ p \in InvalidPatterns \/ p \in SpecialPatterns
PatValid(p) == p \notin InvalidPatterns
PatMatch(p, t) ==
  IF MetaFree(p) THEN Contains(t, p)
  ELSE CASE p = Chars("^5") -> Len(t) >= 1 /\ t[1] = "5"
         [] p = Chars("5$") -> Len(t) >= 1 /\ t[Len(t)] = "5"
         [] p = Chars("^$") -> t = <<>>
         [] p = Chars("[0-9]") -> \E i \in 1..Len(t) : t[i] \in Digit
         [] p = Chars("a|x") -> \E i \in 1..Len(t) : t[i] \in {"a", "x"}
         [] p = Chars(".") -> t # <<>>
         [] p = Chars("2.5") -> \E i \in 1..(Len(t) - 2) : t[i] = "2" /\ t[i + 2] = "5"
         [] p = Chars("^-?[0-9]+$") ->
              LET i0 == IF Len(t) >= 1 /\ t[1] = "-" THEN 2 ELSE 1
              IN i0 <= Len(t) /\ \A i \in i0..Len(t) : t[i] \in Digit
         [] p = Chars("ab*c") ->
              \E i \in 1..Len(t) : \E j \in (i + 1)..Len(t) :
                 t[i] = "a" /\ t[j] = "c" /\ \A m \in (i + 1)..(j - 1) : t[m] = "b"
Match(op, l, r) ==
  IF r.k \notin {"str", "regex"} THEN Err
  ELSE IF ~PatValid(r.s) THEN Err
  ELSE Ok(VBool(PatMatch(r.s, StrOf(l)) = (op = "~")))

\* ----------------------------------------------------- the binary operators
BinOps == ArithOps \cup CmpOps \cup LogicOps \cup MatchOps
BinOp(op, l, r) ==
  CASE op \in ArithOps -> Arith(op, l, r)
    [] op \in CmpOps -> Compare(op, l, r)
    [] op \in LogicOps -> Logic(op, l, r)
    [] op \in MatchOps -> Match(op, l, r)

\* ------------------------------------------------- composed expressions
\* An expression tree is a leaf [t |-> "leaf", v, id], a unary node [t |-> "un", op, e] or a
\* binary node [t |-> "bin", op, l, r].  An operator node is applied to the RESULTS of its
\* operand expressions: the meaning of `!(a == b)` is UnOp("!", .) of the result of the cell
\* a == b, whatever that cell is -- it is NOT the cell a != b (the two differ when an operand
\* is unset: both cells are false).  Evaluation goes left to right, stops at the first
\* runtime error, and skips the right operand of && and || when the left one decides.
\* The result carries m, the ids of the leaves evaluated, in order.
\*
\* The exact arithmetic of this module takes operands n * 2^e with |n| < 2^6 (32-bit TLC
\* integers), and the decimal text of a number is the exact expansion only for short
\* numbers.  Where the result of an inner node is outside that range, or is not fixed by the
\* statement, the value of the nodes above it is left open (Unfixed), never guessed.
SigDigits(t) == SelectSeq(t, LAMBDA c : c # "." /\ c # "-")
SigCountOf(ds, nzs) == IF nzs = {} THEN 0 ELSE SetMax(nzs) - SetMin(nzs) + 1
SigCount(t) == SigCountOf(SigDigits(t), {i \in 1..Len(SigDigits(t)) : SigDigits(t)[i] # "0"})
\* the text of x is its exact expansion: integers below 2^53, fractions of at most 15 significant digits
TextOK(x) == IsZero(x) \/ (x.d = 1 /\ ((x.e >= 0 /\ x.e <= 47) \/ (x.e < 0 /\ x.e >= -30 /\ SigCount(ExactText(x)) <= 15)))
UsesText(op, other) == op \in {"~", "!~"} \/ (op = "+" /\ other.k = "str")
\* may the result v of the sub-expression e be an operand of op (the other operand being `other`)?
OperandOK(op, e, v, other) ==
  \/ e.t = "leaf"
  \/ /\ v.k \notin {"sum", "unfixed", "okopen"}
     /\ v.k = "num" => Abs(v.n) < 64 /\ v.d = 1 /\ (UsesText(op, other) => TextOK(v))
     \* (the range of the model's parser of numeric strings; a decimal fraction that is not a double would be rounded twice)
     /\ v.k = "str" => (Cardinality({i \in 1..Len(v.s) : v.s[i] \in Digit}) <= 8 /\ (\A i \in 1..Len(v.s) : v.s[i] \notin {"e", "E"})
                        /\ ParsedOrZero(ParseNum(v.s)).d = 1)
TR(ok, v, m) == [ok |-> ok, v |-> v, m |-> m]
WithMarks(res, m) == IF res.ok THEN TR(TRUE, res.v, m) ELSE TR(FALSE, [k |-> "null"], m)
RECURSIVE EvalTree(_)
EvalBinRight(t, a, b) ==                    \* a, b: the results of both operands (b evaluated after a)
  IF ~b.ok THEN TR(FALSE, [k |-> "null"], a.m \o b.m)
  ELSE IF ~OperandOK(t.op, t.l, a.v, b.v) \/ ~OperandOK(t.op, t.r, b.v, a.v) THEN TR(TRUE, [k |-> "unfixed"], a.m \o b.m)
  ELSE IF t.op \in MatchOps /\ b.v.k \in {"str", "regex"} /\ ~PatDefined(b.v.s) THEN TR(TRUE, [k |-> "unfixed"], a.m \o b.m)   \* a computed pattern the RE2 table does not list
  ELSE WithMarks(BinOp(t.op, a.v, b.v), a.m \o b.m)
EvalBinLeft(t, a) ==
  IF ~a.ok THEN a
  ELSE IF ~OperandOK(t.op, t.l, a.v, [k |-> "null"]) THEN TR(TRUE, [k |-> "unfixed"], a.m)      \* (whether the right side runs is open too)
  ELSE IF ~EvalsRight(t.op, a.v) THEN TR(TRUE, VBool(t.op = "||"), a.m)
  ELSE EvalBinRight(t, a, EvalTree(t.r))
EvalUnOf(t, a) ==
  IF ~a.ok THEN a
  ELSE IF ~OperandOK(t.op, t.e, a.v, [k |-> "null"]) THEN TR(TRUE, [k |-> "unfixed"], a.m)
  ELSE WithMarks(UnOp(t.op, a.v), a.m)
EvalTree(t) ==
  CASE t.t = "leaf" -> TR(TRUE, t.v, <<t.id>>)
    [] t.t = "un" -> EvalUnOf(t, EvalTree(t.e))
    [] t.t = "bin" -> EvalBinLeft(t, EvalTree(t.l))
Leaf(v, id) == [t |-> "leaf", v |-> v, id |-> id]
UnNode(op, e) == [t |-> "un", op |-> op, e |-> e]
BinNode(op, l, r) == [t |-> "bin", op |-> op, l |-> l, r |-> r]

\* ======================================================================
\* Methods (DESIGN.md 4.4, property C16)
\* ======================================================================
StrLen(s) == Len(s)                                             \* bytes, not characters
LowerAZ == "abcdefghijklmnopqrstuvwxyz"
UpperAZ == "ABCDEFGHIJKLMNOPQRSTUVWXYZ"
IsByteIn(b, str) == \E i \in 1..Len(str) : SubSeq(str, i, i) = b
IdxIn(b, str) == CHOOSE i \in 1..Len(str) : SubSeq(str, i, i) = b
UpperByte(b) == IF Len(b) = 1 /\ IsByteIn(b, LowerAZ) THEN SubSeq(UpperAZ, IdxIn(b, LowerAZ), IdxIn(b, LowerAZ)) ELSE b
LowerByte(b) == IF Len(b) = 1 /\ IsByteIn(b, UpperAZ) THEN SubSeq(LowerAZ, IdxIn(b, UpperAZ), IdxIn(b, UpperAZ)) ELSE b
\* UTF-8: a continuation byte is 0x80..0xBF
IsCont(b) == Len(b) = 2 /\ ByteCode(b) >= 128 /\ ByteCode(b) < 192
RECURSIVE CharsOf(_)
CharsOf(s) ==                    \* the characters (UTF-8 sequences) of a well-formed text
  IF s = <<>> THEN <<>>
  ELSE LET j == CHOOSE j \in 1..Len(s) : (j = Len(s) \/ ~IsCont(s[j + 1])) /\ \A m \in 2..j : IsCont(s[m])
       IN <<SubSeq(s, 1, j)>> \o CharsOf(SubSeq(s, j + 1, Len(s)))

\* Case mapping acts on CHARACTERS, one by one, whatever else the text holds: the ASCII letters by
\* range, the non-ASCII characters the models use by the table below (character, upper, lower: the
\* simple case mappings of the Unicode Character Database -- leaf facts, cross-checked by the
\* harness); a character that is not listed has no case and is unchanged.  The table holds letters of
\* every kind that has a mapping: lower/upper pairs of 2, 3 and 4 bytes, a titlecase digraph (neither
\* lower nor upper case, both mappings change it), letter numbers, symbols, a combining mark.
HB(h) == [i \in 1..(Len(h) \div 2) |-> SubSeq(h, 2 * i - 1, 2 * i)]          \* "C3A9" -> <<"C3", "A9">>
CaseTable ==
  {<<HB("C3A9"), HB("C389"), HB("C3A9")>>, <<HB("C389"), HB("C389"), HB("C3A9")>>,                  \* U+00E9 / U+00C9
   <<HB("C785"), HB("C784"), HB("C786")>>, <<HB("C784"), HB("C784"), HB("C786")>>, <<HB("C786"), HB("C784"), HB("C786")>>,   \* U+01C5 (titlecase), U+01C4, U+01C6
   <<HB("E285B7"), HB("E285A7"), HB("E285B7")>>, <<HB("E285A7"), HB("E285A7"), HB("E285B7")>>,      \* U+2177 / U+2167 roman numeral eight
   <<HB("E29390"), HB("E292B6"), HB("E29390")>>, <<HB("E292B6"), HB("E292B6"), HB("E29390")>>,      \* U+24D0 / U+24B6 circled a
   <<HB("CD85"), HB("CE99"), HB("CD85")>>, <<HB("CE99"), HB("CE99"), HB("CEB9")>>, <<HB("CEB9"), HB("CE99"), HB("CEB9")>>,   \* U+0345 (combining), U+0399, U+03B9
   <<HB("CF89"), HB("CEA9"), HB("CF89")>>, <<HB("CEA9"), HB("CEA9"), HB("CF89")>>,                  \* U+03C9 / U+03A9
   <<HB("D18F"), HB("D0AF"), HB("D18F")>>, <<HB("D0AF"), HB("D0AF"), HB("D18F")>>,                  \* U+044F / U+042F
   <<HB("F09090A8"), HB("F0909080"), HB("F09090A8")>>, <<HB("F0909080"), HB("F0909080"), HB("F09090A8")>>}   \* U+10428 / U+10400
CaseRows(c) == {r \in CaseTable : r[1] = c}
CaseOf(c, rows, col) == IF rows = {} THEN c ELSE (CHOOSE r \in rows : TRUE)[col]
UpperChar(c) == IF Len(c) = 1 THEN <<UpperByte(c[1])>> ELSE CaseOf(c, CaseRows(c), 2)
LowerChar(c) == IF Len(c) = 1 THEN <<LowerByte(c[1])>> ELSE CaseOf(c, CaseRows(c), 3)
UpperChars(cs) == FlattenSeq([i \in 1..Len(cs) |-> UpperChar(cs[i])])
LowerChars(cs) == FlattenSeq([i \in 1..Len(cs) |-> LowerChar(cs[i])])
Upper(s) == UpperChars(CharsOf(s))
Lower(s) == LowerChars(CharsOf(s))

\* split at the leftmost non-overlapping occurrences of a non-empty separator;
\* the empty separator splits into characters
RECURSIVE SplitNE(_, _)
SplitNE(s, sep) ==
  LET P == {i \in 1..Len(s) : OccursAt(s, sep, i)} IN
  IF P = {} THEN <<s>>
  ELSE LET i == SetMin(P) IN <<SubSeq(s, 1, i - 1)>> \o SplitNE(SubSeq(s, i + Len(sep), Len(s)), sep)
Split(s, sep) == IF sep = <<>> THEN CharsOf(s) ELSE SplitNE(s, sep)
RECURSIVE Join(_, _)
Join(ps, sep) == IF ps = <<>> THEN <<>> ELSE IF Len(ps) = 1 THEN ps[1] ELSE ps[1] \o sep \o Join(Tail(ps), sep)

\* floor / ceil / round of a num; the results are integers
IsInteger(x) == IsZero(x) \/ (x.d = 1 /\ x.e >= 0)
Floor(x) ==
  IF IsInteger(x) THEN (IF IsZero(x) THEN Zero ELSE x)
  ELSE IF x.n < 0 THEN Sub(Trunc(x), I(1)) ELSE Trunc(x)
PlusZero(x) == IF IsZero(x) THEN Zero ELSE x
Ceil(x) == PlusZero(Neg(Floor(Neg(x))))
\* nearest integer, halves away from zero: sign(x) * floor(|x| + 1/2)
Round(x) ==
  IF IsInteger(x) THEN (IF IsZero(x) THEN Zero ELSE x)
  ELSE IF x.n < 0 THEN PlusZero(Neg(Floor(Add(Neg(x), Num(1, 1, -1))))) ELSE Floor(Add(x, Num(1, 1, -1)))

\* objects as functions from keys (byte strings) to values
ObjLen(o) == Cardinality(DOMAIN o)
Range(f) == {f[i] : i \in DOMAIN f}
Pluck(o, keys) == [key \in Range(keys) |-> IF key \in DOMAIN o THEN o[key] ELSE VNull]
\* the same over a heap (ids -> objects): the result is a NEW object, the receiver is untouched
PluckH(h, id, keys) ==
  LET nid == SetMax(DOMAIN h) + 1
  IN [heap |-> [i \in DOMAIN h \cup {nid} |-> IF i = nid THEN Pluck(h[id], keys) ELSE h[i]], id |-> nid]
SetKeyH(h, id, key, v) == [h EXCEPT ![id] = [kk \in DOMAIN h[id] \cup {key} |-> IF kk = key THEN v ELSE h[id][kk]]]

\* num(v): the number a numeric string denotes, null for any other string;
\* num() of a number is not fixed by the statement; other kinds: see MC_Methods
ParsedOrNull(p) == IF p.ok THEN p.v ELSE VNull
NumBuiltin(v) == IF v.k = "str" THEN ParsedOrNull(ParseNum(v.s)) ELSE [k |-> "unfixed"]

\* writes through a member:  o.k = 99   o.k += 1   o.k -= 1   o.k++   ++o.k   o.k--   --o.k
\* (a member that does not exist reads as null; the stored value follows the operator tables)
MemberWrites == {"set", "add", "sub", "postinc", "preinc", "postdec", "predec"}
OldOf(o, key) == IF key \in DOMAIN o THEN o[key] ELSE VNull
WrittenVal(w, old) ==
  CASE w = "set" -> I(99)
    [] w = "add" -> Arith("+", old, I(1)).v
    [] w = "sub" -> Arith("-", old, I(1)).v
    [] w \in {"postinc", "preinc"} -> IncDec("++", TRUE, old).stored
    [] w \in {"postdec", "predec"} -> IncDec("--", TRUE, old).stored
WriteH(h, id, key, w) == SetKeyH(h, id, key, WrittenVal(w, OldOf(h[id], key)))

\* ----- numeric strings of ANY length.  ParseNum above computes with TLC's 32-bit integers; this
\* second reading of the same grammar keeps the digits: the value of [neg, ds, e10] is
\* (-1)^neg * (the integer whose decimal digits are ds) * 10^e10, ds without leading zeros
\* (<<>> is zero).  num() returns the double nearest to it (the rounding is the harness's, math/big).
RECURSIVE StripZeros(_)
StripZeros(ds) == IF ds # <<>> /\ Head(ds) = "0" THEN StripZeros(Tail(ds)) ELSE ds
ParseDec(s) ==
  LET i0 == IF Len(s) >= 1 /\ s[1] \in {"+", "-"} THEN 2 ELSE 1
      i1 == SpanDigits(s, i0)
      dot == i1 <= Len(s) /\ s[i1] = "."
      i2 == IF dot THEN SpanDigits(s, i1 + 1) ELSE i1
      intd == SubSeq(s, i0, i1 - 1)
      frac == IF dot THEN SubSeq(s, i1 + 1, i2 - 1) ELSE <<>>
      hasE == i2 <= Len(s) /\ s[i2] \in {"e", "E"}
      esign == hasE /\ i2 + 1 <= Len(s) /\ s[i2 + 1] \in {"+", "-"}
      j0 == IF esign THEN i2 + 2 ELSE i2 + 1
      j1 == IF hasE THEN SpanDigits(s, j0) ELSE i2
      expd == IF hasE THEN SubSeq(s, j0, j1 - 1) ELSE <<>>
  IN IF Len(intd) + Len(frac) = 0 \/ (hasE /\ expd = <<>>) \/ j1 # Len(s) + 1 THEN [ok |-> FALSE]
     ELSE [ok |-> TRUE, neg |-> (Len(s) >= 1 /\ s[1] = "-"), ds |-> StripZeros(intd \o frac),
           e10 |-> (IF esign /\ s[i2 + 1] = "-" THEN -1 ELSE 1) * DigitsValue(expd) - Len(frac)]
VDec(p) == [k |-> "dec", neg |-> p.neg, ds |-> p.ds, e10 |-> p.e10]
NumBuiltinDec(v) == IF v.k # "str" THEN [k |-> "unfixed"] ELSE IF ParseDec(v.s).ok THEN VDec(ParseDec(v.s)) ELSE VNull
\* the same number in the 32-bit representation (short digit strings only)
DecAsNum(p) == PValue(p.neg, DigitsValue(p.ds), p.e10).v
=============================================================================
