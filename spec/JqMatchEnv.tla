---------------------------- MODULE JqMatchEnv ----------------------------
(* match expressions inside a program (property C19, "all subjects ...,   *)
(* expression and block bodies"): the subject is an EXPRESSION evaluated   *)
(* in an environment (literals, variables, the input value $, elements and *)
(* members that exist or are missing, call results, names of functions,    *)
(* a name bound by an enclosing match), its value may be of EVERY kind     *)
(* (number, string, boolean, null, array, object, function, unset), and    *)
(* the selected body is CODE that runs in the scope of the bindings: it    *)
(* may create variables, read names nobody set, loop, update a variable of *)
(* the program, call the bound value, contain another match.               *)
(*                                                                          *)
(* What the statement fixes, and this module states:                        *)
(*  - a subject expression denotes a VALUE (Eval); a missing element or     *)
(*    member is null and nothing but null, however it was reached (by a     *)
(*    number, by a name, through a call, through a binding);                *)
(*  - a literal pattern matches when `v == literal` (EnvCmp: DESIGN.md 3.4, *)
(*    row 1: an unset operand makes `==` false; rows 2-7 as JqMatch!LitCmp; *)
(*    an object is a container like an array);                              *)
(*  - an identifier matches ANYTHING (every kind, functions and unset       *)
(*    included) and binds it; an array pattern matches arrays only;         *)
(*  - the body of the selected case is evaluated, whatever it does, and its *)
(*    value is the value of the match (null for a block).                   *)
(* The matcher is JqMatchCore (MatchPat / MatchAlts / SelectFrom), here     *)
(* instantiated with EnvCmp.                                                *)
(*                                                                          *)
(* Open (not fixed anywhere): `function == non-null literal`; the printed   *)
(* form of a function and of an unset value.  MC_MatchEnv generates no run  *)
(* that depends on them.                                                    *)
(*                                                                          *)
(* Named deviation match-unset-as-zero: the pinned code compares an UNSET   *)
(* subject with a literal as if it were the number 0 (Value.Compare instead *)
(* of the `==` operator, which special-cases unset): `match (nosuch) { 0 => *)
(* ... }` selects the case although `nosuch == 0` is false.                 *)
EXTENDS JqUtil

\* ---- values: the records of JqMatch plus objects, functions and unset
Num(n)  == [k |-> "num",  n |-> n, s |-> "",  a |-> <<>>]
Str(s)  == [k |-> "str",  n |-> 0, s |-> s,   a |-> <<>>]
Bool(b) == [k |-> "bool", n |-> IF b THEN 1 ELSE 0, s |-> "", a |-> <<>>]
Null    == [k |-> "null", n |-> 0, s |-> "",  a |-> <<>>]
Arr(a)  == [k |-> "arr",  n |-> 0, s |-> "",  a |-> a]
\* object: a = <<Str(key1), value1, Str(key2), value2, ...>>, keys ascending (the order they print in)
Obj(kv) == [k |-> "obj",  n |-> 0, s |-> "",  a |-> kv]
\* function value: s = which one ("Fu" the program's function, "num" "json" "printf" builtins,
\* "length" a method taken from a receiver), n = what calling a method value yields
Fn(id, n) == [k |-> "fn", n |-> n, s |-> id,  a |-> <<>>]
Unset   == [k |-> "unset", n |-> 0, s |-> "", a |-> <<>>]

NumOf(v) == IF v.k \in {"num", "bool"} THEN v.n ELSE 0

\* `v == lit` (DESIGN.md 3.4): "eq" / "ne" / "err"; "open" where nothing fixes it
EnvCmp(v, lit) ==
  IF v.k = "unset" THEN "ne"                                       \* row 1
  ELSE IF v.k = "null" /\ lit.k = "null" THEN "eq"                 \* row 2
  ELSE IF v.k = "null" \/ lit.k = "null" THEN "ne"                 \* rows 3, 4
  ELSE IF v.k \in {"arr", "obj"} THEN "err"                        \* row 5
  ELSE IF v.k = "fn" THEN "open"
  ELSE IF v.k = "str" /\ lit.k = "str" THEN (IF v.s = lit.s THEN "eq" ELSE "ne")
  ELSE IF NumOf(v) = NumOf(lit) THEN "eq" ELSE "ne"

\* the deviation: an unset subject is the number 0 (null rows first, as in Value.Compare)
DevCmp(v, lit) ==
  IF v.k = "unset" THEN (IF lit.k = "null" THEN "ne" ELSE IF NumOf(lit) = 0 THEN "eq" ELSE "ne")
  ELSE EnvCmp(v, lit)

I == INSTANCE JqMatchCore WITH LitCmp <- EnvCmp
D == INSTANCE JqMatchCore WITH LitCmp <- DevCmp
PLit(v)   == I!PLitOf(v)
PId(name) == I!PIdOf(name, Null)
PArr(ps)  == I!PArrOf(ps, Null)

\* ---- the environment of the model's programs
GarV == Arr(<<Num(1), Num(2), Str("a")>>)
GobV == Obj(<<Str("3"), Num(2), Str("a"), Num(1), Str("n"), Null>>)
GsvV == Str("abcd")
Globals == [Gar |-> GarV, Gob |-> GobV, Gsv |-> GsvV]
\* the input document of the "doc" programs ($ in their rule)
Doc == Obj(<<Str("arr"), GarV, Str("num"), Num(4), Str("obj"), GobV>>)

\* ---- subject expressions
NoE == [e |-> "none"]
ELit(v)      == [e |-> "lit",    v |-> v,    name |-> "",   i |-> 0, b |-> NoE]   \* the value written as a literal
EVar(name)   == [e |-> "var",    v |-> Null, name |-> name, i |-> 0, b |-> NoE]   \* a variable of the program, or a name never set
EDollar      == [e |-> "dollar", v |-> Null, name |-> "",   i |-> 0, b |-> NoE]   \* $
EIdx(b, i)   == [e |-> "idx",    v |-> Null, name |-> "",   i |-> i, b |-> b]     \* b[i], i a number
EMem(b, nm)  == [e |-> "mem",    v |-> Null, name |-> nm,   i |-> 0, b |-> b]     \* b.nm
ECall(b)     == [e |-> "call",   v |-> Null, name |-> "",   i |-> 0, b |-> b]     \* Idf(b): through a parameter and a return
EFn(name)    == [e |-> "fn",     v |-> Null, name |-> name, i |-> 0, b |-> NoE]   \* the name of a function
EBind(b)     == [e |-> "bind",   v |-> Null, name |-> "",   i |-> 0, b |-> b]     \* match (b) { W => match (W) {...} }

\* member of an object by key (a string): the value, or null when there is no such key
RECURSIVE MemberFrom(_, _, _)
MemberFrom(kv, key, j) ==
  IF j > Len(kv) THEN Null
  ELSE IF kv[j].s = key THEN kv[j + 1] ELSE MemberFrom(kv, key, j + 2)
Member(o, key) == MemberFrom(o.a, key, 1)

\* the value an expression denotes; dollar: the value of $
RECURSIVE Eval(_, _)
Eval(e, dollar) ==
  CASE e.e = "lit" -> e.v
    [] e.e = "var" -> (IF e.name \in DOMAIN Globals THEN Globals[e.name] ELSE Unset)
    [] e.e = "dollar" -> dollar
    [] e.e = "idx" ->
         LET b == Eval(e.b, dollar) IN
         IF b.k = "arr" THEN (IF e.i >= 0 /\ e.i < Len(b.a) THEN b.a[e.i + 1] ELSE Null)
         ELSE IF b.k = "obj" THEN Member(b, ToString(e.i))
         ELSE Null
    [] e.e = "mem" ->
         LET b == Eval(e.b, dollar) IN
         IF b.k = "obj" THEN Member(b, e.name)
         ELSE IF e.name = "length" /\ b.k = "arr" THEN Fn("length", Len(b.a))
         ELSE IF e.name = "length" /\ b.k = "str" THEN Fn("length", Len(b.s))
         ELSE Null
    [] e.e = "call" -> Eval(e.b, dollar)
    [] e.e = "fn" -> Fn(e.name, 0)
    [] e.e = "bind" -> Eval(e.b, dollar)

\* calling a function value of the model: the arguments the body passes (source
\* tokens), what the call prints and what it yields
CallFn(f) ==
  CASE f.s = "Fu"     -> [args |-> <<"'q'">>,     trace |-> <<<<"fu", " ", "q">>>>, val |-> Str("ru")]
    [] f.s = "num"    -> [args |-> <<"'12'">>,    trace |-> <<>>,                   val |-> Num(12)]
    [] f.s = "json"   -> [args |-> <<"7">>,       trace |-> <<>>,                   val |-> Str("7")]
    [] f.s = "printf" -> [args |-> <<"'pq\\n'">>, trace |-> <<<<"pq">>>>,           val |-> Null]
    [] f.s = "length" -> [args |-> <<>>,          trace |-> <<>>,                   val |-> Num(f.n)]

\* ---- bodies.  A case is [alts, body]; body = [kind, arg]; k = the case's number.
\*   const    'c<k>'                                  the string c<k>
\*   name     <arg>                                   the value bound to the name
\*   new      (T = 'c<k>')                            T never seen before: created; the value assigned
\*   newblk   { T = 'k<k>'; m(T) }                    prints "m k<k>"; null
\*   unset    !U                                      U never set anywhere: unset is falsy, so true
\*   forin    { for (E in ['k<k>', 'j']) m(E) }       the loop variable is new; prints "m k<k>", "m j"; null
\*   update   (Gc = Gc + 1)                           Gc is a variable of the program, 0 before the match: 1, and Gc is 1 afterwards
\*   nested   match (2) { 2 => (T = 'c<k>') }         a match selected through a literal, in the body
\*   call     <arg>(<arguments>)                      the bound value is a function: CallFn
Body(kind, arg) == [kind |-> kind, arg |-> arg]
IsBlock(body) == body.kind \in {"newblk", "forin"}
Digit(k) == SubSeq("123456789", k, k)
KStr(k) == Str("k" \o Digit(k))
CStr(k) == Str("c" \o Digit(k))
MLine(v) == <<"m", " ", v.s>>

\* outcome of a match: [cls: "ok" | "runtime", sel, val, trace (printed lines), gc (Gc afterwards)]
RECURSIVE MatchEnv(_, _, _, _), BodyRun(_, _, _, _, _)
BodyRun(body, k, b, rd, devs) ==
  CASE body.kind = "const"  -> [val |-> CStr(k), trace |-> <<>>, gc |-> 0]
    [] body.kind = "name"   -> [val |-> I!Lookup(b, body.arg), trace |-> <<>>, gc |-> 0]
    [] body.kind = "new"    -> [val |-> CStr(k), trace |-> <<>>, gc |-> 0]
    [] body.kind = "newblk" -> [val |-> Null, trace |-> <<MLine(KStr(k))>>, gc |-> 0]
    [] body.kind = "unset"  -> [val |-> Bool(TRUE), trace |-> <<>>, gc |-> 0]
    [] body.kind = "forin"  -> [val |-> Null, trace |-> <<MLine(KStr(k)), MLine(Str("j"))>>, gc |-> 0]
    [] body.kind = "update" -> [val |-> Num(1), trace |-> <<>>, gc |-> 1]
    [] body.kind = "nested" ->
         LET o == MatchEnv(Num(2), <<[alts |-> <<PLit(Num(2))>>, body |-> Body("new", "")]>>, rd, devs)
         IN [val |-> (IF o.sel = 1 THEN CStr(k) ELSE Null), trace |-> o.trace, gc |-> o.gc]
    [] body.kind = "call"   ->
         LET c == CallFn(I!Lookup(b, body.arg)) IN [val |-> c.val, trace |-> c.trace, gc |-> 0]

MatchEnv(v, cases, rd, devs) ==
  LET r == IF "match-unset-as-zero" \in devs THEN D!SelectFrom(v, cases, 1, rd, {})
                                              ELSE I!SelectFrom(v, cases, 1, rd, {})
  IN IF r.m = "no" THEN [cls |-> "ok", sel |-> 0, val |-> Null, trace |-> <<>>, gc |-> 0]
     ELSE IF r.m = "err" THEN [cls |-> "runtime", sel |-> r.sel, val |-> Null, trace |-> <<>>, gc |-> 0]
     ELSE LET bv == BodyRun(cases[r.sel].body, r.sel, r.b, rd, devs)
          IN [cls |-> "ok", sel |-> r.sel, val |-> bv.val, trace |-> bv.trace, gc |-> bv.gc]

\* ------------------------------------------------------------------------
\* Declarative counterpart (for the laws of MC_MatchEnv): does the pattern match
\* the value, under the lenient reading (an erring comparison is no match)
RECURSIVE DMatches(_, _)
DMatches(v, p) ==
  IF p.t = "lit" THEN EnvCmp(v, p.v) = "eq"
  ELSE IF p.t = "id" THEN TRUE
  ELSE /\ v.k = "arr" /\ Len(v.a) = Len(p.items)
       /\ \A j \in 1..Len(p.items) : DMatches(v.a[j], p.items[j])

\* the literals a pattern holds, at any depth
RECURSIVE PatLits(_)
PatLits(p) ==
  IF p.t = "lit" THEN {p.v}
  ELSE IF p.t = "arr" THEN UNION {PatLits(p.items[j]) : j \in 1..Len(p.items)}
  ELSE {}
=============================================================================
