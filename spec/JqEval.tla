----------------------------- MODULE JqEval -----------------------------
(* The statement-level abstract machine of jqawk (DESIGN.md 4.7): frames,   *)
(* control signals, statements, calls, match, and a small rule schedule.    *)
(*                                                                          *)
(* Structured like src/evaluator.go: one action per critical section        *)
(* (evalStatement cases, loop heads, callFunction entry/exit, the match     *)
(* frame, evalRules / EvalProgram consuming next / exit).  Data-dependent    *)
(* choices are nondeterministic parameters of the test actions: TLC         *)
(* branches on them, a recorded trace fixes them.                           *)
(*                                                                          *)
(* A program is a record                                                    *)
(*   [fns   : Seq([params : Seq(Name), body : Stmt]),                       *)
(*    rules : Seq([kind : {"B","BF","P","EF","E"}, body : Stmt]),           *)
(*    n     : Nat]      \* the input is one array with n elements           *)
(* Statements (field k): print, show, set, callstmt, block, if, while, for, *)
(* forin, break, continue, return, next, exit, fault, matchstmt.            *)
(* Simple expressions ("atoms"): [k |-> "num", v], [k |-> "var", n],        *)
(* [k |-> "faultx"]; right-hand sides may also be [k |-> "call", f, args]   *)
(* and [k |-> "match", subj, bind, body] (expression body, an atom).        *)
EXTENDS JqUtil

CONSTANTS CallLimit,   \* frames above the root that may exist (code: 4096)
          Fuel,        \* number of TRUE condition outcomes TLC may choose
          NextOutsidePattern  \* subset of {"ends-rule", "runtime-error"}: what `next` may do
                              \* in BEGIN/END/BEGINFILE/ENDFILE, in a pattern expression and in a
                              \* root selector, and `exit` in a root selector (statement: open)

VARIABLES prog, sched, si, ctl, frames, sig, retval, out, conds, trues, outcome, open
vars == <<prog, sched, si, ctl, frames, sig, retval, out, conds, trues, outcome, open>>

Null == [k |-> "null"]
Unset == [k |-> "unset"]
Num(i) == [k |-> "num", v |-> i]

NoStmt == [k |-> "none"]

-----------------------------------------------------------------------------
(* Frames: frames[1] is the innermost, frames[Len] the root frame.          *)
(* Lookup follows the implementation's parent chain (innermost first).      *)

FrameOf(name) ==    \* index of the innermost frame that has the name, 0 if none
  LET S == {i \in 1..Len(frames) : name \in DOMAIN frames[i].vars}
  IN IF S = {} THEN 0 ELSE SetMin(S)

\* A lookup that crosses a FUNCTION boundary into a frame that is not the root captured a
\* caller's local (dynamic scoping): the statement does not say what that means, so such
\* behaviours are marked open and not compared.  Going from a <match> frame to the frames of
\* the same function activation is ordinary nesting, not capture.
Captures(name) ==
  LET i == FrameOf(name)
  IN i # 0 /\ i # Len(frames) /\ \E j \in 1..(i - 1) : frames[j].name = "fn"

ValueOfName(name) == LET i == FrameOf(name) IN IF i = 0 THEN Unset ELSE frames[i].vars[name]

AtomValue(a) == CASE a.k = "num" -> Num(a.v)
                  [] a.k = "null" -> Null
                  [] a.k = "retval" -> retval      \* the value of the call just completed
                  [] a.k = "membnull" -> Null      \* gobj.k where the global object gobj has no key k
                  [] a.k = "var" -> ValueOfName(a.n)
AtomOpen(a) == a.k = "var" /\ Captures(a.n)
AtomFaults(a) == a.k = "faultx"

\* Reading a name that exists nowhere creates it, unset, in the current frame
\* (getVariable).  Touch(fr, as) does that for every variable atom in as.
Touch(fr, as) ==
  LET missing == {as[i].n : i \in {j \in 1..Len(as) : as[j].k = "var"}} \ UNION {DOMAIN fr[i].vars : i \in 1..Len(fr)}
  IN IF missing = {} THEN fr
     ELSE [fr EXCEPT ![1].vars = [x \in (DOMAIN fr[1].vars) \cup missing |-> IF x \in missing THEN Unset ELSE fr[1].vars[x]]]

\* frames after `name = v` (created in the current frame when it exists nowhere)
Assigned(fr, name, v) ==
  LET S == {i \in 1..Len(fr) : name \in DOMAIN fr[i].vars}
      i == IF S = {} THEN 1 ELSE SetMin(S)
  IN [fr EXCEPT ![i].vars = [x \in (DOMAIN fr[i].vars) \cup {name} |-> IF x = name THEN v ELSE fr[i].vars[x]]]

-----------------------------------------------------------------------------
(* Control stack items (ctl[1] is the top):                                 *)
(*  [t |-> "stmt", s, p]            execute statement s (p: its path)        *)
(*  [t |-> "seq", b, i, p]          rest of a block                          *)
(*  [t |-> "loop", s, p, ph, it]    an active loop; ph: "test" | "post"      *)
(*  [t |-> "callk", dst]            an active call; dst: variable or ""      *)
(*  [t |-> "matchk", dst, val]      an active match frame                    *)
(*  [t |-> "rulek", kind, el]       an active rule body                      *)

Top == ctl[1]
Pop == Tail(ctl)
Push(item) == <<item>> \o Tail(ctl)      \* replace the top
PushOn(item, rest) == <<item>> \o rest

Running == outcome = "running"
Idle == Running /\ sig = "none"
TopIs(t) == ctl # <<>> /\ Top.t = t
TopStmt(k) == TopIs("stmt") /\ Top.s.k = k

\* every observation entry carries the frame depth at which it was written
\* (root frame = 0): the real code's depth is recorded per stdout line
Say(entry) == out' = Append(out, <<entry, Len(frames) - 1>>)

-----------------------------------------------------------------------------
(* The rule schedule for one input file holding one array of n elements.    *)
ScheduleOf(p) ==
  LET RuleIdx(kind) == SelectSeq([i \in 1..Len(p.rules) |-> i], LAMBDA i : p.rules[i].kind = kind)
      Acts(kind, el) == [j \in 1..Len(RuleIdx(kind)) |-> [kind |-> kind, ri |-> RuleIdx(kind)[j], el |-> el]]
  IN Acts("B", 0) \o Acts("SEL", 0) \o Acts("BF", 0)
     \o FlattenSeq([e \in 1..p.n |-> Acts("P", e)])
     \o Acts("EF", 0) \o Acts("E", 0)

InitFor(p) ==
  /\ prog = p
  /\ sched = ScheduleOf(p)
  /\ si = 1
  /\ ctl = <<>>
  /\ frames = << [name |-> "<root>", vars |-> <<>>] >>
  /\ sig = "none"
  /\ retval = Null
  /\ out = <<>>
  /\ conds = <<>>
  /\ trues = 0
  /\ outcome = "running"
  /\ open = FALSE

-----------------------------------------------------------------------------
(* Rule driver (EvalProgram / evalPatternRules / evalRules)                  *)

\* A rule may have a pattern (field pat): [k |-> "none"], [k |-> "const", v |-> BOOLEAN]
\* or [k |-> "call", f |-> i] (a user function called in the pattern expression).
PatOf(r) == IF "pat" \in DOMAIN r THEN r.pat ELSE [k |-> "none"]
Truthy(v) == v.k = "num" /\ v.v # 0

BodyItem(a) == [t |-> "stmt", s |-> prog.rules[a.ri].body, p |-> <<a.ri>>]
RuleItem(a) == [t |-> "rulek", kind |-> a.kind, el |-> a.el]

StartRule ==
  /\ Idle /\ ctl = <<>> /\ si <= Len(sched)
  /\ LET a == sched[si]
         pat == PatOf(prog.rules[a.ri])
     IN CASE pat.k = "none" \/ (pat.k = "const" /\ pat.v) ->
               /\ ctl' = << BodyItem(a), RuleItem(a) >>
               /\ Say(<<"rule", a.kind, a.ri, a.el>>)
               /\ UNCHANGED frames
          [] pat.k = "const" /\ ~pat.v ->
               /\ ctl' = << RuleItem(a) >> /\ UNCHANGED <<out, frames>>
          [] pat.k = "call" ->
               \* evalRules evaluates the pattern: a call, then its truthiness
               /\ frames' = <<[name |-> "fn", vars |-> <<>>]>> \o frames
               /\ ctl' = << [t |-> "stmt", s |-> prog.fns[pat.f].body, p |-> <<100 + pat.f>>],
                            [t |-> "callk", dst |-> ""], [t |-> "patk", a |-> a], RuleItem(a) >>
               /\ UNCHANGED out
  /\ UNCHANGED <<prog, sched, si, sig, retval, conds, trues, outcome, open>>

\* the pattern call returned: run the body iff its value is truthy
PatternDecide ==
  /\ Idle /\ TopIs("patk")
  /\ IF Truthy(retval)
     THEN /\ ctl' = Push(BodyItem(Top.a)) /\ Say(<<"rule", Top.a.kind, Top.a.ri, Top.a.el>>)
     ELSE /\ ctl' = Pop /\ UNCHANGED out
  /\ UNCHANGED <<prog, sched, si, frames, sig, retval, conds, trues, outcome, open>>

\* a signal leaves the pattern expression.  exit and faults pass on to the
\* driver; what `next` means here is open (abandon the element / runtime error)
PatUnwind ==
  /\ Running /\ TopIs("patk") /\ sig \in {"next", "exit", "fault"}
  /\ IF sig = "next"
     THEN \/ /\ "ends-rule" \in NextOutsidePattern /\ ctl' = Pop /\ UNCHANGED <<sig, outcome>>
          \/ /\ "runtime-error" \in NextOutsidePattern /\ ctl' = Tail(Pop) /\ sig' = "none" /\ outcome' = "runtime"
     ELSE ctl' = Pop /\ UNCHANGED <<sig, outcome>>
  /\ UNCHANGED <<prog, sched, si, frames, retval, out, conds, trues, open>>

\* the rule body completed normally
EndRule ==
  /\ Idle /\ TopIs("rulek")
  /\ ctl' = Pop /\ si' = si + 1
  /\ UNCHANGED <<prog, sched, frames, sig, retval, out, conds, trues, outcome, open>>

Finish ==
  /\ Idle /\ ctl = <<>> /\ si > Len(sched)
  /\ outcome' = "ok"
  /\ UNCHANGED <<prog, sched, si, ctl, frames, sig, retval, out, conds, trues, open>>

\* evalRules: `next` abandons the remaining pattern rules for this element
RuleConsumeNext ==
  /\ Running /\ sig = "next" /\ TopIs("rulek") /\ Top.kind = "P"
  /\ LET el == Top.el
         later == {j \in (si+1)..Len(sched) : ~(sched[j].kind = "P" /\ sched[j].el = el)}
     IN si' = IF later = {} THEN Len(sched) + 1 ELSE SetMin(later)
  /\ ctl' = Pop /\ sig' = "none"
  /\ UNCHANGED <<prog, sched, frames, retval, out, conds, trues, outcome, open>>

\* `next` outside a pattern rule: the statement leaves open whether it ends the
\* rule or is a runtime error; it must never surface as anything else (C01).
RuleNextElsewhere ==
  /\ Running /\ sig = "next" /\ TopIs("rulek") /\ Top.kind # "P"
  /\ \/ /\ "ends-rule" \in NextOutsidePattern
        /\ ctl' = Pop /\ sig' = "none" /\ si' = si + 1 /\ UNCHANGED outcome
     \/ /\ "runtime-error" \in NextOutsidePattern
        /\ ctl' = Pop /\ sig' = "none" /\ outcome' = "runtime" /\ UNCHANGED si
  /\ UNCHANGED <<prog, sched, frames, retval, out, conds, trues, open>>

\* EvalProgram: `exit` ends the whole run, successfully, END included
DriverConsumeExit ==
  /\ Running /\ sig = "exit" /\ TopIs("rulek") /\ Top.kind # "SEL"
  /\ ctl' = Pop /\ sig' = "none" /\ outcome' = "ok"
  /\ UNCHANGED <<prog, sched, si, frames, retval, out, conds, trues, open>>

\* `exit` inside a root selector: open (ends the run successfully / runtime error)
SelectorExit ==
  /\ Running /\ sig = "exit" /\ TopIs("rulek") /\ Top.kind = "SEL"
  /\ ctl' = Pop /\ sig' = "none"
  /\ \/ "ends-rule" \in NextOutsidePattern /\ outcome' = "ok"
     \/ "runtime-error" \in NextOutsidePattern /\ outcome' = "runtime"
  /\ UNCHANGED <<prog, sched, si, frames, retval, out, conds, trues, open>>

\* a fault reaches the driver: the run stops with a runtime error
DriverFault ==
  /\ Running /\ sig = "fault" /\ TopIs("rulek")
  /\ ctl' = Pop /\ sig' = "none" /\ outcome' = "runtime"
  /\ UNCHANGED <<prog, sched, si, frames, retval, out, conds, trues, open>>

-----------------------------------------------------------------------------
(* Simple statements                                                        *)

ExecPrint ==
  /\ Idle /\ TopStmt("print")
  /\ Say(<<"s", Top.p>>) /\ ctl' = Pop
  /\ UNCHANGED <<prog, sched, si, frames, sig, retval, conds, trues, outcome, open>>

\* show n: prints the value of a variable, or that it is unset
ExecShow ==
  /\ Idle /\ TopStmt("show")
  /\ Say(<<"v", Top.s.n, ValueOfName(Top.s.n)>>) /\ ctl' = Pop
  /\ open' = (open \/ Captures(Top.s.n))
  /\ frames' = Touch(frames, <<[k |-> "var", n |-> Top.s.n]>>)
  /\ UNCHANGED <<prog, sched, si, sig, retval, conds, trues, outcome>>

\* showg: prints the global object gobj, which no program of these families assigns to:
\* it must still be the empty object (a missing member passed to a call is passed as null, by value)
ExecShowG ==
  /\ Idle /\ TopStmt("showg")
  /\ Say(<<"g">>) /\ ctl' = Pop
  /\ UNCHANGED <<prog, sched, si, frames, sig, retval, conds, trues, outcome, open>>

Raise(s) == sig' = s

ExecSignal ==
  /\ Idle /\ TopIs("stmt") /\ Top.s.k \in {"break", "continue", "next", "exit"}
  /\ Raise(Top.s.k) /\ ctl' = Pop
  /\ UNCHANGED <<prog, sched, si, frames, retval, out, conds, trues, outcome, open>>

ExecReturn ==
  /\ Idle /\ TopStmt("return")
  /\ LET e == Top.s.e IN
       IF e.k = "none" THEN /\ retval' = Null /\ Raise("return") /\ UNCHANGED open
       ELSE IF AtomFaults(e) THEN /\ Raise("fault") /\ UNCHANGED <<retval, open>>
       ELSE /\ retval' = AtomValue(e) /\ Raise("return") /\ open' = (open \/ AtomOpen(e))
  /\ ctl' = Pop
  /\ frames' = IF Top.s.e.k = "var" THEN Touch(frames, <<Top.s.e>>) ELSE frames
  /\ UNCHANGED <<prog, sched, si, out, conds, trues, outcome>>

\* a statement whose evaluation fails (division by zero, ...): C11
ExecFault ==
  /\ Idle /\ TopStmt("fault")
  /\ Raise("fault") /\ ctl' = Pop
  /\ UNCHANGED <<prog, sched, si, frames, retval, out, conds, trues, outcome, open>>

ExecBlock ==
  /\ Idle /\ TopStmt("block")
  /\ ctl' = Push([t |-> "seq", b |-> Top.s.b, i |-> 1, p |-> Top.p])
  /\ UNCHANGED <<prog, sched, si, frames, sig, retval, out, conds, trues, outcome, open>>

SeqStep ==
  /\ Idle /\ TopIs("seq")
  /\ IF Top.i > Len(Top.b) THEN ctl' = Pop
     ELSE ctl' = PushOn([t |-> "stmt", s |-> Top.b[Top.i], p |-> Append(Top.p, Top.i)],
                        Push([Top EXCEPT !.i = Top.i + 1]))
  /\ UNCHANGED <<prog, sched, si, frames, sig, retval, out, conds, trues, outcome, open>>

-----------------------------------------------------------------------------
(* Conditions: every test announces itself ("c", path) and then takes an    *)
(* outcome chosen by the environment (the data).  A condition may instead   *)
(* be a faulting expression (cond = "fault").                               *)

\* With a recorded oracle (field orc of the program: trace validation and
\* long-history replays) the outcome is the recorded one.
CondChoices ==
  IF "orc" \in DOMAIN prog
  THEN IF Len(conds) < Len(prog.orc) THEN {prog.orc[Len(conds) + 1]} ELSE {FALSE}
  ELSE IF trues < Fuel THEN BOOLEAN ELSE {FALSE}
TakeCond(b) == /\ conds' = Append(conds, b)
               /\ trues' = IF b THEN trues + 1 ELSE trues

ExecIf ==
  /\ Idle /\ TopStmt("if")
  /\ IF Top.s.c = "fault"
     THEN /\ Raise("fault") /\ ctl' = Pop /\ UNCHANGED <<out, conds, trues>>
     ELSE IF Top.s.c = "true"      \* a literal condition: no oracle involved
     THEN /\ ctl' = Push([t |-> "stmt", s |-> Top.s.th, p |-> Append(Top.p, 1)])
          /\ UNCHANGED <<sig, out, conds, trues>>
     ELSE \E b \in CondChoices :
            /\ TakeCond(b) /\ Say(<<"c", Top.p>>) /\ UNCHANGED sig
            /\ ctl' = IF b THEN Push([t |-> "stmt", s |-> Top.s.th, p |-> Append(Top.p, 1)])
                      ELSE IF Top.s.el.k # "none" THEN Push([t |-> "stmt", s |-> Top.s.el, p |-> Append(Top.p, 2)])
                      ELSE Pop
  /\ UNCHANGED <<prog, sched, si, frames, retval, outcome, open>>

\* while / for: enter the loop (for: the init clause runs once, first)
ExecLoopEnter ==
  /\ Idle /\ TopIs("stmt") /\ Top.s.k \in {"while", "for"}
  /\ IF Top.s.k = "for" /\ Top.s.init = "fault"
     THEN /\ Raise("fault") /\ ctl' = Pop /\ UNCHANGED out
     ELSE /\ ctl' = Push([t |-> "loop", s |-> Top.s, p |-> Top.p, ph |-> "test", it |-> 0])
          /\ IF Top.s.k = "for" THEN Say(<<"i", Top.p>>) ELSE UNCHANGED out
          /\ UNCHANGED sig
  /\ UNCHANGED <<prog, sched, si, frames, retval, conds, trues, outcome, open>>

LoopTest ==
  /\ Idle /\ TopIs("loop") /\ Top.s.k \in {"while", "for"} /\ Top.ph = "test"
  /\ IF Top.s.c = "fault"
     THEN /\ Raise("fault") /\ ctl' = Pop /\ UNCHANGED <<out, conds, trues>>
     ELSE IF Top.s.c = "true"
     THEN /\ ctl' = PushOn([t |-> "stmt", s |-> Top.s.b, p |-> Append(Top.p, 1)],
                           Push([Top EXCEPT !.ph = IF Top.s.k = "for" THEN "post" ELSE "test"]))
          /\ UNCHANGED <<sig, out, conds, trues>>
     ELSE \E b \in CondChoices :
            /\ TakeCond(b) /\ Say(<<"c", Top.p>>) /\ UNCHANGED sig
            /\ ctl' = IF b THEN PushOn([t |-> "stmt", s |-> Top.s.b, p |-> Append(Top.p, 1)],
                                       Push([Top EXCEPT !.ph = IF Top.s.k = "for" THEN "post" ELSE "test"]))
                      ELSE Pop
  /\ UNCHANGED <<prog, sched, si, frames, retval, outcome, open>>

\* the three-clause for: the post expression runs after each completed or
\* continued iteration
ForPost ==
  /\ Idle /\ TopIs("loop") /\ Top.s.k = "for" /\ Top.ph = "post"
  /\ IF Top.s.post = "fault"
     THEN /\ Raise("fault") /\ ctl' = Pop /\ UNCHANGED out
     ELSE /\ Say(<<"p", Top.p>>) /\ ctl' = Push([Top EXCEPT !.ph = "test"]) /\ UNCHANGED sig
  /\ UNCHANGED <<prog, sched, si, frames, retval, conds, trues, outcome, open>>

\* for-in over an array / object / string with n elements (n fixed by the data)
ExecForInEnter ==
  /\ Idle /\ TopStmt("forin")
  /\ IF Top.s.n < 0     \* the iterable is not iterable (a number), or faults
     THEN /\ Raise("fault") /\ ctl' = Pop
     ELSE /\ ctl' = Push([t |-> "loop", s |-> Top.s, p |-> Top.p, ph |-> "test", it |-> 0]) /\ UNCHANGED sig
  /\ UNCHANGED <<prog, sched, si, frames, retval, out, conds, trues, outcome, open>>

ForInNext ==
  /\ Idle /\ TopIs("loop") /\ Top.s.k = "forin"
  /\ IF Top.it >= Top.s.n THEN ctl' = Pop /\ UNCHANGED out
     ELSE /\ Say(<<"it", Top.p, Top.it>>)
          /\ ctl' = PushOn([t |-> "stmt", s |-> Top.s.b, p |-> Append(Top.p, 1)],
                           Push([Top EXCEPT !.it = Top.it + 1]))
  /\ UNCHANGED <<prog, sched, si, frames, sig, retval, conds, trues, outcome, open>>

LoopConsumeBreak ==
  /\ Running /\ sig = "break" /\ TopIs("loop")
  /\ ctl' = Pop /\ sig' = "none"
  /\ UNCHANGED <<prog, sched, si, frames, retval, out, conds, trues, outcome, open>>

\* continue: the loop item stays; for a three-clause for its phase is "post",
\* so the next action is ForPost
LoopConsumeContinue ==
  /\ Running /\ sig = "continue" /\ TopIs("loop")
  /\ sig' = "none"
  /\ UNCHANGED <<prog, sched, si, ctl, frames, retval, out, conds, trues, outcome, open>>

-----------------------------------------------------------------------------
(* Assignment, calls, match                                                 *)

PushFrame(name, vs) == <<[name |-> name, vars |-> vs]>> \o frames
Depth == Len(frames) - 1

\* a call names a function of prog.fns (f > 0) or carries its body inline
\* (f = 0, field fb, no parameters): the machine does not care how it is named
Params(f) == IF f = 0 THEN <<>> ELSE prog.fns[f].params
ArgVal(args, i) == IF i <= Len(args) THEN AtomValue(args[i]) ELSE Null
BindParams(f, args) ==
  LET ps == Params(f) IN
  [x \in {ps[i] : i \in 1..Len(ps)} |-> ArgVal(args, CHOOSE i \in 1..Len(ps) : ps[i] = x)]

\* callFunction: refuse beyond the limit, else push a frame and bind by position
\* (missing: null, surplus: ignored)
DoCall(f, body, bp, args, dst, rest) ==
  IF \E i \in 1..Len(args) : AtomFaults(args[i])
  THEN /\ Raise("fault") /\ ctl' = rest /\ UNCHANGED <<frames, open>>
  ELSE IF Depth + 1 > CallLimit
  THEN /\ Raise("fault") /\ ctl' = rest /\ UNCHANGED <<frames, open>>
  ELSE /\ frames' = <<[name |-> "fn", vars |-> BindParams(f, args)]>> \o Touch(frames, args)
       /\ ctl' = PushOn([t |-> "stmt", s |-> body, p |-> bp],
                        PushOn([t |-> "callk", dst |-> dst], rest))
       /\ open' = (open \/ \E i \in 1..Len(args) : AtomOpen(args[i]) \/ AtomValue(args[i]) = Unset)
       /\ UNCHANGED sig

ExecCallStmt ==
  /\ Idle /\ TopStmt("callstmt")
  /\ IF Top.s.f = 0 THEN DoCall(0, Top.s.fb, Append(Top.p, 1), Top.s.args, "", Pop)
     ELSE DoCall(Top.s.f, prog.fns[Top.s.f].body, <<100 + Top.s.f>>, Top.s.args, "", Pop)
  /\ UNCHANGED <<prog, sched, si, retval, out, conds, trues, outcome>>

ExecSet ==
  /\ Idle /\ TopStmt("set")
  /\ LET e == Top.s.e IN
     CASE e.k = "call" ->
            /\ IF e.f = 0 THEN DoCall(0, e.fb, Append(Top.p, 1), e.args, Top.s.n, Pop)
               ELSE DoCall(e.f, prog.fns[e.f].body, <<100 + e.f>>, e.args, Top.s.n, Pop)
            /\ UNCHANGED retval
       [] e.k = "match" ->
            \* an expression-body match: push the <match> frame, bind, evaluate the atom,
            \* pop the frame, assign
            IF AtomFaults(e.subj) \/ Depth + 1 > CallLimit
            THEN /\ Raise("fault") /\ ctl' = Pop /\ UNCHANGED <<frames, open, retval>>
            ELSE /\ frames' = <<[name |-> "<match>", vars |-> [x \in {e.bind} |-> AtomValue(e.subj)]]>> \o Touch(frames, <<e.subj>>)
                 /\ ctl' = PushOn([t |-> "matchk", dst |-> Top.s.n, body |-> e.body, p |-> Top.p], Pop)
                 /\ open' = (open \/ AtomOpen(e.subj))
                 /\ UNCHANGED <<sig, retval>>
       [] OTHER ->
            IF AtomFaults(e)
            THEN /\ Raise("fault") /\ ctl' = Pop /\ UNCHANGED <<frames, open, retval>>
            ELSE /\ frames' = Assigned(Touch(frames, <<e>>), Top.s.n, AtomValue(e))
                 /\ open' = (open \/ AtomOpen(e) \/ Captures(Top.s.n))
                 /\ ctl' = Pop /\ UNCHANGED <<sig, retval>>
  /\ UNCHANGED <<prog, sched, si, out, conds, trues, outcome>>

\* callFunction exit: the frame is popped on EVERY path; only `return` is
\* consumed here; the result is the returned value or null
CallReturn ==
  /\ Running /\ TopIs("callk") /\ sig \in {"none", "return"}
  /\ LET res == IF sig = "return" THEN retval ELSE Null
         fr == Tail(frames)
     IN frames' = IF Top.dst = "" THEN fr ELSE Assigned(fr, Top.dst, res)
  /\ open' = (open \/ (Top.dst # "" /\ LET fr == Tail(frames)
                                           S == {i \in 1..Len(fr) : Top.dst \in DOMAIN fr[i].vars}
                                       IN S # {} /\ SetMin(S) # Len(fr) /\ \E j \in 1..(SetMin(S) - 1) : fr[j].name = "fn"))
  /\ ctl' = Pop /\ sig' = "none"
  /\ retval' = IF sig = "return" THEN retval ELSE Null
  /\ UNCHANGED <<prog, sched, si, out, conds, trues, outcome>>

CallUnwind ==   \* next / exit / fault pass through a call; its frame is released
  /\ Running /\ TopIs("callk") /\ sig \in {"next", "exit", "fault"}
  /\ frames' = Tail(frames) /\ ctl' = Pop
  /\ UNCHANGED <<prog, sched, si, sig, retval, out, conds, trues, outcome, open>>

\* match with a block body, as a statement: match (subj) { bind => { body } }
ExecMatchStmt ==
  /\ Idle /\ TopStmt("matchstmt")
  /\ IF AtomFaults(Top.s.subj) \/ Depth + 1 > CallLimit
     THEN /\ Raise("fault") /\ ctl' = Pop /\ UNCHANGED <<frames, open>>
     ELSE /\ frames' = <<[name |-> "<match>", vars |-> [x \in {Top.s.bind} |-> AtomValue(Top.s.subj)]]>> \o Touch(frames, <<Top.s.subj>>)
          /\ ctl' = PushOn([t |-> "stmt", s |-> Top.s.b, p |-> Append(Top.p, 1)],
                           PushOn([t |-> "matchk", dst |-> "", body |-> [k |-> "none"], p |-> Top.p], Pop))
          /\ open' = (open \/ AtomOpen(Top.s.subj))
          /\ UNCHANGED sig
  /\ UNCHANGED <<prog, sched, si, retval, out, conds, trues, outcome>>

\* leaving a match: the <match> frame is popped on EVERY path; an expression
\* body is evaluated inside the frame (the bound name is visible there)
\* an expression body that is a call: the call runs inside the <match> frame
MatchBodyCall ==
  /\ Idle /\ TopIs("matchk") /\ Top.body.k = "call"
  /\ LET rest == Push([Top EXCEPT !.body = [k |-> "retval"]]) IN
       IF Top.body.f = 0 THEN DoCall(0, Top.body.fb, Append(Top.p, 1), Top.body.args, "", rest)
       ELSE DoCall(Top.body.f, prog.fns[Top.body.f].body, <<100 + Top.body.f>>, Top.body.args, "", rest)
  /\ UNCHANGED <<prog, sched, si, retval, out, conds, trues, outcome>>

MatchLeave ==
  /\ Running /\ TopIs("matchk") /\ (sig = "none" => Top.body.k # "call")
  /\ IF sig = "none" /\ Top.dst # ""
     THEN IF AtomFaults(Top.body)
          THEN /\ frames' = Tail(frames) /\ sig' = "fault" /\ UNCHANGED open
          ELSE /\ frames' = Assigned(Tail(Touch(frames, <<Top.body>>)), Top.dst, AtomValue(Top.body))
               /\ open' = (open \/ AtomOpen(Top.body)) /\ UNCHANGED sig
     ELSE /\ frames' = Tail(frames) /\ UNCHANGED <<sig, open>>
  /\ ctl' = Pop
  /\ UNCHANGED <<prog, sched, si, retval, out, conds, trues, outcome>>

\* a signal passes through statements / blocks that do not consume it
Unwind ==
  /\ Running /\ sig # "none" /\ ctl # <<>> /\ Top.t \in {"stmt", "seq"}
  /\ ctl' = Pop
  /\ UNCHANGED <<prog, sched, si, frames, sig, retval, out, conds, trues, outcome, open>>
LoopUnwind ==
  /\ Running /\ sig \in {"return", "next", "exit", "fault"} /\ TopIs("loop")
  /\ ctl' = Pop
  /\ UNCHANGED <<prog, sched, si, frames, sig, retval, out, conds, trues, outcome, open>>

\* the run is over: stutter (so that a stuck running state is a TLC deadlock)
Done == outcome # "running" /\ UNCHANGED vars

Next ==
  \/ Done
  \/ StartRule \/ PatternDecide \/ PatUnwind \/ EndRule \/ Finish \/ RuleConsumeNext \/ RuleNextElsewhere
  \/ DriverConsumeExit \/ SelectorExit \/ DriverFault
  \/ ExecPrint \/ ExecShow \/ ExecShowG \/ ExecSignal \/ ExecReturn \/ ExecFault \/ ExecBlock \/ SeqStep
  \/ ExecIf \/ ExecLoopEnter \/ LoopTest \/ ForPost \/ ExecForInEnter \/ ForInNext
  \/ LoopConsumeBreak \/ LoopConsumeContinue
  \/ ExecCallStmt \/ ExecSet \/ CallReturn \/ CallUnwind \/ ExecMatchStmt \/ MatchBodyCall \/ MatchLeave
  \/ Unwind \/ LoopUnwind

-----------------------------------------------------------------------------
(* Properties (checked by TLC in every reachable state by the MC_Eval modules) *)

NFrameItems == Cardinality({i \in 1..Len(ctl) : ctl[i].t \in {"callk", "matchk"}})

\* C08: the frame stack mirrors the active calls and matches exactly
FrameBalance == Running => Len(frames) = 1 + NFrameItems
\* C08: whenever a rule starts (and when the run is over) only the root frame exists
BaseAtRuleStart == (ctl = <<>>) => Len(frames) = 1
\* C20: call nesting never exceeds the limit
DepthBounded == Depth <= CallLimit
\* C01: no signal escapes: with an empty control stack nothing is pending
NoEscape == (ctl = <<>>) => sig = "none"
\* C01: every run ends in one of the allowed outcomes
OutcomeLegal == outcome \in {"running", "ok", "runtime"}

\* what the parser's static checks guarantee (C01/C11): break/continue always
\* find a loop of the same activation, return always finds a call
InnerIdx(ts) == LET S == {i \in 1..Len(ctl) : ctl[i].t \in ts} IN IF S = {} THEN 0 ELSE SetMin(S)
SigConsumed ==
  /\ sig \in {"break", "continue"} =>
       LET l == InnerIdx({"loop"}) c == InnerIdx({"callk", "rulek"}) IN l # 0 /\ l < c
  /\ sig = "return" => InnerIdx({"callk"}) # 0

\* C02/C01: after exit or a fault nothing more is written (action property)
StopFreezesOutput == [][outcome # "running" => out' = out]_vars
\* nothing is enabled once the run is over
Terminated == outcome # "running"
DoneIsFinal == [][outcome # "running" => FALSE]_vars

\* JqEval refines the integer abstraction JqFramesInd, whose inductive invariant Apalache proves
\* for EVERY call-depth limit (tools/apalache_frames.sh): every step of this machine is a step
\* (or a stuttering step) of the abstraction under the mapping below.
Abs == INSTANCE JqFramesInd WITH
         L <- CallLimit,
         depth <- Len(frames) - 1,
         calls <- Cardinality({i \in 1..Len(ctl) : ctl[i].t = "callk"}),
         matches <- Cardinality({i \in 1..Len(ctl) : ctl[i].t = "matchk"}),
         sig <- IF sig \in {"break", "continue"} THEN "none" ELSE sig,
         at <- IF ctl = <<>> THEN "driver" ELSE "body"
RefinesFrames == [][Abs!Next]_Abs!absvars

TypeOK ==
  /\ sig \in {"none", "break", "continue", "return", "next", "exit", "fault"}
  /\ outcome \in {"running", "ok", "runtime"}
  /\ ("orc" \notin DOMAIN prog) => trues \in 0..Fuel
  /\ Len(frames) >= 1
=============================================================================
